"""C02 — imap and imap_unordered always terminate on finite input (DESIGN.md §6: five deadlock shapes excluded)."""
from __future__ import annotations

import ast
from typing import Dict, List, Optional, Set, Tuple

from ..absint import Client, Ctx, Interp
from ..model import AnalysisError, Cls, Func, Program, walk_own
from ..orderings import NotAFormula, eval_order, weak_orderings
from ..report import Report
from ..resolve import const_value, dotted
from ..util import iter_stores, assigned_value, calls_in, returns_of, src
from .c01 import feeder_analysis, r1_raised_before_start
from .poolfam import PoolFacts, queue_call


def run(prog: Program, rep: Report):
    from .poolfam import pool_facts
    pf = pool_facts(prog, rep, "C02.R9")
    rep.attempt(lambda: r1_unowed_wait(prog, rep, pf))
    rep.attempt(lambda: r2_flag_cleared(prog, rep, pf))
    rep.attempt(lambda: r3_pause_resume(prog, rep, pf))
    rep.attempt(lambda: r4_lock_regions(prog, rep, pf))
    rep.attempt(lambda: r5_retest(prog, rep, pf))
    from .c01 import counter_reset_per_call, feeder_early_exits
    rep.attempt(lambda: counter_reset_per_call(prog, rep, pf, "C02.R6"))
    rep.attempt(lambda: feeder_early_exits(prog, rep, pf, "C02.R7"))
    rep.attempt(lambda: r8_context_covers_iteration(prog, rep, pf))
    rep.attempt(lambda: r12_stop_orders(prog, rep, pf))
    # the completion test `sending or finished < sent` ends exactly when the counter equals the number of chunks put: the feeder's
    # publication order and send accounting (C01.R2/R3) are necessary for termination too
    from .c01 import r1_raised_before_start, r2_r3_feeder
    from ..report import Report as _R
    scratch = _R(rep.prop, rep.tier)
    reset = r1_raised_before_start(prog, scratch, pf, "C02.R10x")
    rep.attempt(lambda: r2_r3_feeder(prog, rep, pf, reset, R2="C02.R10", R3="C02.R11"))


# ---------------------------------------------------------------------------------------------- R1
def _flag_only_disjunct(test: ast.expr, f: Func, pf: PoolFacts) -> bool:
    """does the completion test have a disjunct that is kept true by the flag alone (owing no result)?"""
    if isinstance(test, ast.BoolOp) and isinstance(test.op, ast.Or):
        return any(_flag_only_disjunct(v, f, pf) for v in test.values)
    return dotted(test) == (f.self_name, pf.flag)


def _in_empty_handler(call: ast.Call) -> Optional[ast.ExceptHandler]:
    p = getattr(call, "_parent", None)
    child = call
    while p is not None and not isinstance(p, (ast.FunctionDef, ast.AsyncFunctionDef)):
        if isinstance(p, ast.Try) and any(child is s or _contains(s, child) for s in p.body):
            for h in p.handlers:
                ts = [] if h.type is None else (h.type.elts if isinstance(h.type, ast.Tuple) else [h.type])
                if h.type is None or any(src(t).split(".")[-1] in ("Empty", "Exception") for t in ts):
                    return h
        child, p = p, getattr(p, "_parent", None)
    return None


def _contains(stmt, node) -> bool:
    return any(n is node for n in ast.walk(stmt))


class _WakeUp(Client):
    """feeder side of the wake-up token protocol: state = a token is owed since the last falsy flag write"""

    def __init__(self, pf: PoolFacts):
        self.pf = pf

    def should_inline(self, func, call, ctx):
        return func.outer is not None or func.cls is self.pf.feeder

    def event(self, kind, node, state, ctx: Ctx):
        pf = self.pf
        if kind == "store" and isinstance(node, ast.Attribute) and pf.pool_field(node, ctx.func, ctx.scope.cls) == pf.flag:
            av = assigned_value(node)
            v = const_value(av, None) if av is not None else None
            if v is not None and not v:
                return (True,)
        if kind == "call" and isinstance(node, ast.Call):
            qc = queue_call(node)
            if qc and qc[0] == "put" and pf.qid(node.func.value, ctx.func, ctx.scope.cls) == pf.results_q:
                return (False,)
        return (state,)


def r1_unowed_wait(prog, rep: Report, pf: PoolFacts):
    rep.rule("C02.R1", "no unowed blocking wait: a blocking get on the results queue reachable from a consumer loop whose "
             "condition can be held true by the feeder's flag alone is a lost-wake-up deadlock unless the wait is bounded "
             "(timeout + queue.Empty path back to the loop test) or the feeder posts a wake-up token after every falsy write "
             "of the flag", floor=2)
    flag_only = {}
    for c in pf.consumers:
        flag_only[c.qual] = _flag_only_disjunct(pf.consumer_loop[c.qual].test, c, pf)
    # does the feeder post a wake-up token?
    it = Interp(prog, _WakeUp(pf))
    ex = it.run(pf.feeder_run, {False}, pf.feeder)
    token_posted = all(not s for s in ex.normal | ex.ret)
    f = pf.get_results
    rep.fn(f, pf.feeder_run, *pf.consumers)
    gets = [c for c in calls_in(f.node) if queue_call(c) and queue_call(c)[0] == "get"
            and pf.qid(c.func.value, f, pf.pool) == pf.results_q]
    callers = [c.name for c in pf.consumers if any(isinstance(n, ast.Call) and isinstance(n.func, ast.Attribute)
                                                   and n.func.attr == f.name for n in ast.walk(pf.consumer_loop[c.qual]))]
    if not callers:
        rep.unrec("C02.R1", f, "wait", "the receive helper is not called from a consumer loop")
        return
    any_flag_only = any(flag_only.values())
    n_block = 0
    for g in gets:
        mode = queue_call(g)[1]
        role = f"wait:{mode}:{'in-drain-loop' if isinstance(_enclosing_loop(g), ast.While) else 'tail'}"
        if mode == "nonblocking":
            h = _in_empty_handler(g)
            rep.check("C02.R1", f, role, h is not None, "non-blocking get inside a queue.Empty handler",
                      "a non-blocking get whose queue.Empty is not handled aborts the call instead of waiting",
                      scenario="the queue is drained between qsize() and get(): queue.Empty propagates out of imap", line=g.lineno)
            continue
        n_block += 1
        if mode == "bounded?":
            rep.unrec("C02.R1", f, role, f"`{src(g)}`: cannot tell whether the timeout can be None (unbounded wait)", g.lineno)
            continue
        if mode == "bounded":
            h = _in_empty_handler(g)
            back = h is not None and not any(isinstance(n, ast.Call) and queue_call(n) and queue_call(n)[1] == "blocking"
                                             for n in ast.walk(h)) and not any(isinstance(n, ast.Raise) for n in ast.walk(h))
            rep.check("C02.R1", f, role, back, "bounded wait; on queue.Empty control returns to the consumer's loop test",
                      "the bounded wait has no queue.Empty handler that returns control to the loop test",
                      scenario="the timeout expires while the feeder is still iterating a slow input: queue.Empty escapes from imap",
                      line=g.lineno)
            continue
        # blocking
        if not any_flag_only:
            rep.ok("C02.R1", f, role, "every disjunct of the completion test owes a result (finished < sent)")
        elif token_posted:
            rep.ok("C02.R1", f, role, "the feeder posts a wake-up token after clearing the flag")
        else:
            rep.viol("C02.R1", f, role,
                     f"`{src(g)}` blocks without bound while `self.{pf.flag}` alone keeps {', '.join(callers)} in the loop, and the "
                     f"feeder posts no wake-up after clearing the flag",
                     scenario="input iterator `yield 1; yield 2; sleep(1)`: both results are consumed while the feeder still waits for "
                              "StopIteration, the consumer re-enters the loop (flag still True) and blocks in get() forever; the "
                              "feeder then clears the flag but nobody wakes the consumer", line=g.lineno)
    if n_block == 0:
        rep.error("C02.R1: no waiting get on the results queue found (floor 1)")


def _enclosing_loop(n):
    p = getattr(n, "_parent", None)
    while p is not None and not isinstance(p, ast.FunctionDef):
        if isinstance(p, (ast.For, ast.While)):
            return p
        p = getattr(p, "_parent", None)
    return None


# ---------------------------------------------------------------------------------------------- R2
def r2_flag_cleared(prog, rep: Report, pf: PoolFacts):
    rep.rule("C02.R2", "flag cleared on every exit of the feeder: the falsy write of the flag post-dominates run()'s entry on "
             "all normal paths (input exhausted and stop break)", floor=1)
    f = pf.feeder_run
    rep.fn(f)
    client, it, ex = feeder_analysis(prog, pf, True)
    finals = ex.normal | ex.ret
    if it.unrecognised or not finals:
        rep.unrec("C02.R2", f, "flag-cleared", "; ".join(it.unrecognised) or "run() has no normal exit")
        return
    bad = [s for s in finals if not s[2]]
    rep.check("C02.R2", f, "flag-cleared", not bad, f"all {len(finals)} normal exit states have the flag cleared",
              f"run() can end without clearing self.{pf.flag}: the consumer loop never ends",
              scenario="the feeder leaves through the stop `break` (or an early return) with the flag still True: imap spins/blocks forever")


# ---------------------------------------------------------------------------------------------- R3
def r3_pause_resume(prog, rep: Report, pf: PoolFacts):
    rep.rule("C02.R3", "pause has a resume: an Event the feeder waits on and a consumer clears has, in the same loop body, a "
             "set() on the branch where the pause condition is false; the pause test compares the reorder buffer's len with "
             "the configured bound so that it never pauses below the bound", floor=1)
    run_ = pf.feeder_run
    waited = set()
    for c in calls_in(run_.node):
        if isinstance(c.func, ast.Attribute) and c.func.attr == "wait":
            d = dotted(c.func.value)
            if d and len(d) == 2 and d[0] == run_.self_name:
                waited.add(d[1])
    found = 0
    for f0 in pf.consumers:
        # the consumer with the pool's private helpers inlined (sa/inline.py): the flow control may live in a helper
        f = prog.method_view(f0.cls, f0.name) if f0.cls is not None else f0
        f = _without_mirror_flags(f, waited)
        from ..flow import Flow as _Flow
        vflow = _Flow(f.node)
        for n in ast.walk(f.node):
            if not (isinstance(n, ast.Call) and isinstance(n.func, ast.Attribute) and n.func.attr == "clear"):
                continue
            d = dotted(n.func.value)
            if not (d and d[-1] in waited):
                continue
            found += 1
            rep.fn(f)
            ev = d[-1]
            iff = _enclosing_if(n)
            if iff is None:
                rep.viol("C02.R3", f, f"pause:{ev}", f"`{src(n)}` pauses the feeder unconditionally",
                         scenario="the feeder is paused and never resumed: no more work is sent, the consumer waits forever", line=n.lineno)
                continue
            # the pause condition: the test itself when the pause sits in the body, its negation when it sits in the else arm
            in_body = _contains_any(iff.body, n)
            ptest = iff.test if in_body else ast.copy_location(ast.UnaryOp(op=ast.Not(), operand=iff.test), iff.test)
            # resume on the other branch
            other = iff.orelse if in_body else iff.body
            resume = [c for s in other for c in ast.walk(s) if isinstance(c, ast.Call) and isinstance(c.func, ast.Attribute)
                      and c.func.attr == "set" and dotted(c.func.value) == d]
            # The paused feeder is resumed for sure only if the resume fires in the *drained* state: everything sent before the
            # pause arrives eventually, the reorder buffer then empties completely (chunks are sent in order, so no gap stays open),
            # and nothing else can change the state any more.  So the guards between the pause test and the set() are evaluated at
            # len(buffer) = 0, event not set, for the bounds 1, 2, 3, 10 and 1000 (finite: the feeder is never paused under an infinite bound); sub-expressions over anything else are free atoms.
            bounds = {dotted(x) for x in ast.walk(iff.test) if isinstance(x, ast.Attribute) and dotted(x) and dotted(x)[0] == f.self_name}
            guard_ok = True
            guard_why = ""
            for c in resume:
                conds = []
                ch, par = c, getattr(c, "_parent", None)
                while par is not None and par is not iff:
                    if isinstance(par, ast.If) and ch is not par.test:
                        conds.append((par.test, ch in par.body))
                    ch, par = par, getattr(par, "_parent", None)
                bounds = {dotted(x) for x in ast.walk(iff.test) if isinstance(x, ast.Attribute) and dotted(x) and dotted(x)[0] == f.self_name}
                bad = _drained_counterexample(conds, d, bounds, flow=vflow)
                if bad:
                    guard_ok = False
                    guard_why = bad
            rep.check("C02.R3", f, f"resume:{ev}", bool(resume) and guard_ok,
                      f"`{'.'.join(d)}.set()` on the branch where the pause condition is false, taken whenever the buffer has drained",
                      (f"the resume `{'.'.join(d)}.set()` is not taken in the drained state: {guard_why}" if resume else
                       f"no `{'.'.join(d)}.set()` on the branch where the pause condition `{src(iff.test)}` is false"),
                      scenario="results_queue_maxsize=1: the buffer fills, the feeder is paused; after the buffer drained nobody "
                               "resumes it, the remaining input is never sent and imap never returns", line=iff.lineno)
            # the bound the constructor stores: for every accepted value of its parameter (1, 2, 3, 10) the stored bound must leave
            # an empty buffer un-paused
            bpaths = sorted(x for x in bounds if x and len(x) == 2)
            init = prog.resolve(pf.pool, "__init__")
            if bpaths and init is not None:
                fld = bpaths[0][1]
                for t_, v_, st_ in iter_stores(init.node):
                    if dotted(t_) == (init.self_name, fld) and v_ is not None:
                        params = [x.id for x in ast.walk(v_) if isinstance(x, ast.Name) and x.id in init.params]
                        bad_b = None
                        for b_ in (1, 2, 3, 10):
                            stored = _eval_ctor_bound(v_, {p_: b_ for p_ in params})
                            if stored is None:
                                continue
                            probe = _drained_counterexample([(ptest, False)], d, bounds, fixed_bound=stored, flow=vflow)
                            if probe:
                                bad_b = (b_, stored)
                                break
                        rep.check("C02.R3", init, f"bound-stored:{fld}", bad_b is None,
                                  f"self.{fld} = `{src(v_)}` keeps an empty buffer un-paused for every parameter value",
                                  f"with the parameter equal to {bad_b[0] if bad_b else ''} the constructor stores the bound "
                                  f"{bad_b[1] if bad_b else ''} (`{src(v_)}`): the pause test `{src(ptest)}` holds for an empty buffer",
                                  scenario="results_queue_maxsize=1: the feeder is paused before anything was buffered and never resumed",
                                  line=st_.lineno)
            # the pause test over (len(buffer), bound)
            t = ptest

            def term(x):
                if isinstance(x, ast.Name):
                    x = vflow.expand(x)          # buffered = len(buffer)
                if isinstance(x, ast.Call) and src(x.func) == "len":
                    return env["len"]
                dd = dotted(x)
                if dd and dd[0] == f.self_name:
                    return env["bound"]
                return None
            try:
                bad = []
                W = weak_orderings(["len", "bound"])
                for env in W:
                    if eval_order(t, env, term) and env["len"] < env["bound"]:
                        bad.append(env)
                rep.count("orderings_evaluated", len(W))
                rep.check("C02.R3", f, f"pause-test:{ev}", not bad, f"`{src(t)}` pauses only when len(buffer) >= bound",
                          f"`{src(t)}` pauses the feeder while the buffer is below its bound ({bad})",
                          scenario="with an empty reorder buffer the feeder is paused: no work is sent, no result arrives, the "
                                   "buffer never changes: deadlock", line=t.lineno)
            except NotAFormula as e:
                rep.unrec("C02.R3", f, f"pause-test:{ev}", f"pause condition not a comparison of len(buffer) and the bound: {e}")
    if found == 0:
        rep.error("C02.R3: no pause (Event.clear() of an event the feeder waits on) found in the consumers (floor 1)")


def _eval_ctor_bound(e, env):
    """value of the constructor's bound expression for given parameter values (None: not evaluable)"""
    import math
    try:
        if isinstance(e, ast.Constant):
            return e.value
        if isinstance(e, ast.Name):
            return env.get(e.id)
        if isinstance(e, ast.Attribute) and src(e) in ("math.inf",):
            return math.inf
        if isinstance(e, ast.IfExp):
            t = e.test
            if isinstance(t, ast.Compare) and len(t.ops) == 1 and isinstance(t.ops[0], (ast.Is, ast.IsNot)) \
                    and isinstance(t.comparators[0], ast.Constant) and t.comparators[0].value is None:
                lhs = _eval_ctor_bound(t.left, env)
                is_none = lhs is None and not isinstance(t.left, ast.Name)
                is_none = (env.get(t.left.id) is None) if isinstance(t.left, ast.Name) else is_none
                cond = is_none if isinstance(t.ops[0], ast.Is) else not is_none
                return _eval_ctor_bound(e.body if cond else e.orelse, env)
            return None
        if isinstance(e, ast.BinOp):
            l, r = _eval_ctor_bound(e.left, env), _eval_ctor_bound(e.right, env)
            if l is None or r is None:
                return None
            if isinstance(e.op, ast.Add): return l + r
            if isinstance(e.op, ast.Sub): return l - r
            if isinstance(e.op, ast.Mult): return l * r
            if isinstance(e.op, ast.FloorDiv): return l // r
            if isinstance(e.op, ast.Div): return l / r
        if isinstance(e, ast.Call) and src(e.func) in ("int", "max", "min") and e.args:
            vals = [_eval_ctor_bound(a, env) for a in e.args]
            if None in vals:
                return None
            return {"int": lambda v: int(v[0]), "max": max, "min": min}[src(e.func)](vals)
    except Exception:
        return None
    return None


def _drained_counterexample(conds, ev_path, bounds, fixed_bound=None, flow=None) -> str:
    """conds: [(test, wanted truth value)] guarding the resume.  Returns '' when all hold at len(buffer)=0 / event clear for every
    sampled bound and every valuation of the free atoms, else a description of the falsifying point."""
    from itertools import product
    INF = float("inf")

    class Free(Exception):
        pass

    def val(x, b, free):
        if isinstance(x, ast.Name) and flow is not None:
            ex_ = flow.expand(x)
            if ex_ is not x:
                return val(ex_, b, free)
        if isinstance(x, ast.Constant) and isinstance(x.value, (int, float, bool)):
            return x.value
        if isinstance(x, ast.Call) and src(x.func) == "len" and len(x.args) == 1:
            return 0
        if isinstance(x, ast.Call) and isinstance(x.func, ast.Attribute) and x.func.attr == "is_set" and dotted(x.func.value) == ev_path:
            return False
        dd = dotted(x)
        if dd and dd in bounds:
            return b
        if isinstance(x, ast.BinOp):
            l, r = val(x.left, b, free), val(x.right, b, free)
            try:
                if isinstance(x.op, ast.Add): return l + r
                if isinstance(x.op, ast.Sub): return l - r
                if isinstance(x.op, ast.Mult): return l * r
                if isinstance(x.op, ast.FloorDiv): return l // r
                if isinstance(x.op, ast.Div): return l / r
                if isinstance(x.op, ast.Mod): return l % r
            except (ZeroDivisionError, TypeError, ValueError, OverflowError):
                pass
            raise Free(src(x))
        if isinstance(x, ast.UnaryOp) and isinstance(x.op, ast.Not):
            return not truth(x.operand, b, free)
        if isinstance(x, ast.UnaryOp) and isinstance(x.op, ast.USub):
            return -val(x.operand, b, free)
        if isinstance(x, ast.BoolOp):
            vs = [truth(v, b, free) for v in x.values]
            return all(vs) if isinstance(x.op, ast.And) else any(vs)
        if isinstance(x, ast.Compare):
            cur = val(x.left, b, free)
            for op, rr in zip(x.ops, x.comparators):
                r = val(rr, b, free)
                fn = {ast.Lt: lambda a, c: a < c, ast.LtE: lambda a, c: a <= c, ast.Gt: lambda a, c: a > c, ast.GtE: lambda a, c: a >= c,
                      ast.Eq: lambda a, c: a == c, ast.NotEq: lambda a, c: a != c}.get(type(op))
                if fn is None:
                    raise Free(src(x))
                if cur != cur or r != r:        # nan (inf // 2): every ordered comparison is False
                    res = isinstance(op, ast.NotEq)
                else:
                    res = fn(cur, r)
                if not res:
                    return False
                cur = r
            return True
        raise Free(src(x))

    def truth(x, b, free):
        try:
            return bool(val(x, b, free))
        except Free:
            k = src(x)
            if k not in free:
                free[k] = False
            return free[k]

    # a finite bound: with an infinite one the pause test never fires and the paused state is unreachable
    for b in ((fixed_bound,) if fixed_bound is not None else (1, 2, 3, 10, 1000)):
        names: Dict[str, Optional[bool]] = {}
        # discover free atoms
        for _ in range(8):
            try:
                for t, want in conds:
                    truth(t, b, names)
                break
            except Free:
                for k in names:
                    if names[k] is None:
                        names[k] = False
        keys = list(names)
        for bits in product((False, True), repeat=len(keys)):
            fr = dict(zip(keys, bits))
            for t, want in conds:
                try:
                    got = truth(t, b, fr)
                except Free as e:
                    return f"guard `{src(t)}` cannot be evaluated ({e})"
                if got != want:
                    extra = "".join(f", `{k}` being {v}" for k, v in fr.items())
                    return (f"with bound {b}, len(buffer) = 0 and the event clear{extra}, the guard `{src(t)}` is {got}")
    return ""


def r12_stop_orders(prog, rep: Report, pf: PoolFacts):
    """leaving the pool context terminates: the stop orders are not waited for longer than somebody can read them"""
    from .poolfam import stop_order_delivery
    rep.rule("C02.R12", "the pool context can be left: the pool's __exit__ does not put its stop orders with an unbounded blocking put "
             "when the work queue can be bounded and workers can finish on their own (a worker that used up its chunk quota at the "
             "very end of the last call is not replaced any more and reads no stop order); the accepted form counts down from "
             "len(self.procs) with bounded puts and gives up only when every worker has finished", floor=1)
    f = prog.method(pf.pool, "__exit__")
    rep.fn(f)
    kind, what = stop_order_delivery(prog, pf, f)
    # (i) can the work queue be bounded?  the constructor builds it with a size argument on some path
    init = prog.resolve(pf.pool, "__init__")
    bounded = False
    if init is not None:
        for t_, v_, _st in iter_stores(init.node):
            d = dotted(t_)
            if d and len(d) == 2 and d[0] == init.self_name and d[1] == pf.work_q and v_ is not None:
                for c in ast.walk(v_):
                    if isinstance(c, ast.Call) and isinstance(c.func, ast.Attribute) and c.func.attr == "Queue" and (c.args or c.keywords):
                        bounded = True
    # (ii) can a worker finish without having read a stop order?  its work loop is guarded by a quota (and it announces itself on
    # the replace queue)
    wrun = prog.method(pf.worker, "run")
    retires = any(isinstance(n, ast.While) and not (isinstance(n.test, ast.Constant) and n.test.value is True)
                  and any(isinstance(c, ast.Call) and queue_call(c) and queue_call(c)[0] == "get" for c in ast.walk(n))
                  for n in walk_own(wrun.node)) or \
        any(isinstance(c, ast.Call) and queue_call(c) and queue_call(c)[0] == "put" and pf.qid(c.func.value, wrun, pf.worker) == pf.replace_q
            for c in calls_in(wrun.node))
    if kind == "bounded":
        rep.ok("C02.R12", f, "stop-orders", "count-down from len(self.procs), every put bounded, given up only when every worker has finished")
    elif kind == "plain" and bounded and retires:
        rep.viol("C02.R12", f, "stop-orders", f"__exit__ puts one stop order per element of self.procs with a blocking put, the work queue "
                 f"self.{pf.work_q} can be bounded and a worker can finish without reading a stop order (chunk quota): when such workers "
                 "are still listed, the orders that do not fit into the queue are waited for forever",
                 scenario="FactoryFunctorPool(2, factory, work_queue_maxsize=1), max_chunks_per_worker=1, imap over two chunks: both "
                          "workers retire on the last chunks, their replacement requests arrive after the replace thread was stopped, "
                          "__exit__ blocks in the second put(None)", line=what.lineno)
    elif kind == "plain":
        rep.ok("C02.R12", f, "stop-orders", "blocking puts, but " + ("the work queue is never bounded" if not bounded else
                                                                     "no worker finishes without reading a stop order"))
    else:
        rep.unrec("C02.R12", f, "stop-orders", str(what))


def _without_mirror_flags(f: Func, events) -> Func:
    """A boolean local that mirrors an event the consumer alone clears and sets (`paused = False` before the loop, `paused = True`
    next to every `<ev>.clear()`, `paused = False` next to every `<ev>.set()`) *is* `not <ev>.is_set()`.  Tests on it are rewritten
    to that, `if not paused: <ev>.clear(); paused = True` becomes the bare clear (clearing a cleared event is a no-op) and the
    stores are dropped, so that the rule reads the protocol it knows.  Returns ``f`` itself when there is no such flag."""
    import copy
    from ..model import set_parents
    evcalls = {}
    for n in ast.walk(f.node):
        if isinstance(n, ast.Call) and isinstance(n.func, ast.Attribute) and n.func.attr in ("clear", "set"):
            d = dotted(n.func.value)
            if d and d[-1] in events:
                evcalls.setdefault(d, []).append(n)
    if len(evcalls) != 1:
        return f
    evpath, sites = next(iter(evcalls.items()))

    def block_of(n):
        st = n
        while st is not None and not isinstance(st, ast.stmt):
            st = getattr(st, "_parent", None)
        par = getattr(st, "_parent", None)
        for fld in ("body", "orelse", "finalbody"):
            lst = getattr(par, fld, None)
            if isinstance(lst, list) and st in lst:
                return lst
        return None
    flags = None
    for c in sites:
        blk = block_of(c) or []
        want = c.func.attr == "clear"
        here = {st.targets[0].id for st in blk if isinstance(st, ast.Assign) and len(st.targets) == 1 and isinstance(st.targets[0], ast.Name)
                and isinstance(st.value, ast.Constant) and st.value.value is want}
        flags = here if flags is None else flags & here
    if not flags or len(flags) != 1:
        return f
    flag = next(iter(flags))
    # every other store of the flag is the initial `flag = False` outside the loops
    for n in ast.walk(f.node):
        if isinstance(n, ast.Name) and n.id == flag and isinstance(n.ctx, ast.Store):
            st = getattr(n, "_parent", None)
            if not (isinstance(st, ast.Assign) and isinstance(st.value, ast.Constant) and isinstance(st.value.value, bool)):
                return f
            blk = block_of(st)
            near = blk is not None and any(isinstance(x, ast.Call) and x in sites for s2 in blk for x in ast.walk(s2))
            if not near and st.value.value is not False:
                return f
    node = copy.deepcopy(f.node)
    is_set = ast.parse(".".join(evpath) + ".is_set()", mode="eval").body

    class Rw(ast.NodeTransformer):
        def visit_Name(self, n):
            if n.id == flag and isinstance(n.ctx, ast.Load):
                return ast.copy_location(ast.UnaryOp(op=ast.Not(), operand=copy.deepcopy(is_set)), n)
            return n

        def visit_Assign(self, n):
            if len(n.targets) == 1 and isinstance(n.targets[0], ast.Name) and n.targets[0].id == flag:
                return None
            return self.generic_visit(n)

        def visit_If(self, n):
            self.generic_visit(n)
            if not n.body:
                n.body = [ast.copy_location(ast.Pass(), n)]
            # if not <flag>: <ev>.clear()   ->   <ev>.clear()         (and the same for set under `if <flag>` is kept: it is the resume)
            t = n.test
            if isinstance(t, ast.UnaryOp) and isinstance(t.op, ast.Not) and isinstance(t.operand, ast.UnaryOp) \
                    and isinstance(t.operand.op, ast.Not) and src(t.operand.operand) == src(is_set) and not n.orelse \
                    and all(isinstance(x, ast.Expr) and isinstance(x.value, ast.Call) and isinstance(x.value.func, ast.Attribute)
                            and x.value.func.attr == "clear" for x in n.body):
                return n.body
            return n
    node = Rw().visit(node)
    ast.fix_missing_locations(node)
    set_parents(node)
    g = copy.copy(f)
    g.node = node
    return g


def _enclosing_if(n):
    p = getattr(n, "_parent", None)
    child = n
    while p is not None and not isinstance(p, (ast.FunctionDef, ast.While, ast.For)):
        if isinstance(p, ast.If) and child is not p.test:
            return p
        child, p = p, getattr(p, "_parent", None)
    return None


def _contains_any(stmts, node) -> bool:
    return any(n is node for s in stmts for n in ast.walk(s))


# ---------------------------------------------------------------------------------------------- R4
class _UnderLock(Client):
    """state = depth of `with <results lock>` regions"""

    def __init__(self, pf: PoolFacts):
        self.pf = pf
        self.bad: List[Tuple[int, str, str]] = []
        self.regions = 0
        self.ops = 0

    def should_inline(self, func, call, ctx):
        return func.cls is ctx.scope.cls or (func.cls is not None and ctx.scope.cls is not None and func.cls in (ctx.scope.cls.mro or []))

    def event(self, kind, node, state, ctx: Ctx):
        pf = self.pf
        if kind == "with_enter" and pf.qid(node.context_expr, ctx.func, ctx.scope.cls) == pf.results_lock:
            self.regions += 1
            return (min(2, state + 1),)
        if kind == "with_exit" and pf.qid(node.context_expr, ctx.func, ctx.scope.cls) == pf.results_lock:
            return (max(0, state - 1),)
        if state > 0 and kind == "call" and isinstance(node, ast.Call):
            qc = queue_call(node)
            if qc:
                self.ops += 1
                if qc[1] == "blocking":
                    self.bad.append((node.lineno, ctx.func.short, src(node)))
            elif isinstance(node.func, ast.Attribute) and node.func.attr in ("wait", "join", "acquire", "sleep"):
                self.bad.append((node.lineno, ctx.func.short, src(node)))
        return (state,)


def r4_lock_regions(prog, rep: Report, pf: PoolFacts):
    rep.rule("C02.R4", "nothing blocks under the results lock: inside every `with <results_queue_lock>` region (worker and "
             "consumer side) only non-blocking queue operations occur", floor=2)
    wrun = prog.method(pf.worker, "run")
    for f, cls in ((wrun, pf.worker), (pf.get_results, pf.pool)):
        rep.fn(f)
        client = _UnderLock(pf)
        it = Interp(prog, client)
        it.run(f, {0}, cls)
        if client.regions == 0:
            rep.unrec("C02.R4", f, "lock-region", "no region of the results lock found")
            continue
        if client.bad:
            ln, where, what = client.bad[0]
            rep.viol("C02.R4", f, "lock-region", f"`{what}` can block while the results lock is held ({where})",
                     scenario="results_queue_maxsize=1: a worker blocks in put() on the full queue while holding the lock; the "
                              "consumer needs the lock to drain the queue: deadlock", line=ln)
        else:
            rep.ok("C02.R4", f, "lock-region", f"{client.regions} region(s), {client.ops} queue operation(s), all non-blocking")


# ---------------------------------------------------------------------------------------------- R5
def r5_retest(prog, rep: Report, pf: PoolFacts):
    rep.rule("C02.R5", "loop re-tests after every batch: the consumer loop body contains no inner unbounded loop over the queue; "
             "the drain loop of the receive helper only makes non-blocking calls and is bounded by qsize()/queue.Empty", floor=3)
    for f in pf.consumers:
        rep.fn(f)
        loop = pf.consumer_loop[f.qual]
        inner = [n for n in ast.walk(loop) if isinstance(n, ast.While) and n is not loop]
        rep.check("C02.R5", f, "no-inner-wait-loop", not inner, "the loop body has no nested while loop",
                  "a nested `while` inside the consumer loop can spin without re-evaluating the completion test",
                  scenario="the consumer keeps polling for results inside the body although the call is complete",
                  line=inner[0].lineno if inner else None)
    g = pf.get_results
    rep.fn(g)
    drains = [n for n in walk_own(g.node) if isinstance(n, ast.While)]
    ok = True
    why = ""
    for d in drains:
        calls = [c for c in ast.walk(d) if isinstance(c, ast.Call) and queue_call(c)]
        if any(queue_call(c)[1] == "blocking" for c in calls):
            ok, why = False, "the drain loop makes a blocking queue call"
        if isinstance(d.test, ast.Constant) and d.test.value and not any(_in_empty_handler(c) for c in calls):
            ok, why = False, "`while True` drain loop without a queue.Empty exit"
    rep.check("C02.R5", g, "drain-bounded", ok, f"{len(drains)} drain loop(s): non-blocking, ended by qsize()/queue.Empty", why,
              scenario="the helper never returns to its caller while workers keep producing: the completion test is never re-evaluated")


# ---------------------------------------------------------------------------------------------- R8
def r8_context_covers_iteration(prog, rep: Report, pf: PoolFacts):
    """a `with <helper thread>` around a delegated imap only helps while the with-block is active: the delegate's generator has to
    be iterated (yield from / for ... yield) inside the block, not returned out of it"""
    from ..resolve import Scope
    rep.rule("C02.R8", "helper threads run for the whole call: in every pool method that wraps a delegated imap/imap_unordered in a "
             "`with <thread>(...)` block, the delegate's generator is iterated inside the block (yield from, or a loop that yields); a "
             "`return <generator>` leaves the block - and stops the thread - before the first element is requested", floor=1)
    pools = [pf.pool] + [c for c in prog.classes.values() if c is not pf.pool and pf.pool in (c.mro or []) and not c.is_external]
    n = 0
    for c in pools:
        for name, f in sorted(c.methods.items()):
            if f.self_name is None:
                continue
            # the method with the pool's private helpers read in place: the `with` may live in a shared private generator
            # (`yield from self._while_replacing(super().imap(data, chunk_size))`)
            f = prog.method_view(c, name) or f
            from ..flow import Flow as _Flow
            vflow = _Flow(f.node)
            from .poolfam import helper_thread_scopes
            for ctor_, w_body, w in helper_thread_scopes(f, vflow):
                # delegated generator calls inside the block
                sc = Scope(prog, f, c)
                gens = []
                for call in [x for st in w_body for x in ast.walk(st) if isinstance(x, ast.Call)]:
                    tgt = sc.resolve_call(call)
                    if isinstance(tgt, Func) and tgt.is_generator:
                        gens.append(call)
                # results = super().imap(data, chunk_size)  before the block (a generator object: nothing runs yet), and the name
                # iterated / returned inside it
                for nm in [x for st in w_body for x in ast.walk(st) if isinstance(x, ast.Name) and isinstance(x.ctx, ast.Load)]:
                    if isinstance(getattr(nm, "_parent", None), (ast.YieldFrom, ast.For, ast.Return)):
                        bound = vflow.expand(nm)
                        if isinstance(bound, ast.Call):
                            tgt = sc.resolve_call(bound)
                            if isinstance(tgt, Func) and tgt.is_generator:
                                gens.append(nm)
                if not gens:
                    # a delegate handed in as a parameter (`yield from plain_call(data, chunk_size)` in a shared helper): its
                    # generator is consumed by the yield from just the same
                    params_ = set(f.params)
                    gens = [y.value for st in w_body for y in ast.walk(st) if isinstance(y, ast.YieldFrom) and isinstance(y.value, ast.Call)
                            and isinstance(y.value.func, ast.Name) and y.value.func.id in params_]
                if not gens:
                    continue
                n += 1
                rep.fn(f)
                escaped = [g for g in gens if isinstance(getattr(g, "_parent", None), ast.Return)]
                consumed = [g for g in gens if isinstance(getattr(g, "_parent", None), (ast.YieldFrom, ast.For))
                            or (isinstance(getattr(g, "_parent", None), ast.Call) and src(g._parent.func) in ("list", "tuple", "sorted"))]
                role = f"context-covers:{c.name}.{name}"
                if escaped:
                    rep.viol("C02.R8", f, role, f"`return {src(escaped[0])}` hands the delegate's generator out of the `with "
                             f"{src(ctor_)[:50]}` block: the block is left (the helper thread stopped) before any element is "
                             "produced",
                             scenario="FactoryFunctorPool with a finite max_chunks_per_worker: workers retire, nobody replaces them, the "
                                      "remaining chunks are never processed and the consumer polls forever", line=escaped[0].lineno)
                elif len(consumed) == len(gens):
                    rep.ok("C02.R8", f, role, f"{len(gens)} delegated generator(s) iterated inside the with-block")
                else:
                    rep.unrec("C02.R8", f, role, "a delegated generator inside the with-block is neither iterated there nor returned")
    if n == 0:
        rep.error("C02.R8: no pool method wraps a delegated generator in a with-block (floor 1)")
