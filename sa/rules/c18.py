"""C18 — one opened line/map file can be read from many forked processes at once (DESIGN.md §6)."""
from __future__ import annotations

import ast
from typing import Dict, Set

from ..absint import Client, Ctx, Interp
from ..model import Cls, Func, Program, walk_own
from ..report import Report
from ..resolve import const_value, dotted
from ..util import assigned_value, calls_in, ext_name, src
from .filefam import Family, is_call_to, run_typestate


def run(prog: Program, rep: Report, include_mixins: bool = True):
    fam = Family(prog)
    r1_owner(prog, rep, fam, include_mixins)
    r2_helper(prog, rep, fam)


def r1_owner(prog, rep: Report, fam: Family, include_mixins: bool):
    rep.rule("C18.R1", "ownership typestate: every seek/read of the shared handle is preceded, on all paths since "
             "entry of a public method or the last yield (the process may be a fresh fork), by the re-open helper",
             floor=20)
    results, stats = run_typestate(prog, fam, include_mixins)
    rep.count("entry_points", stats["entry_points"])
    rep.count("abstract_states", stats["abstract_states"])
    rep.count("events", stats["events"])
    rep.count("handle_access_sites", len(stats["handle_sites"]))
    for u in stats["unrecognised"]:
        rep.error(f"C18.R1 interpreter: {u}")
    if len(stats["handle_sites"]) < 5:
        rep.error(f"C18.R1: only {len(stats['handle_sites'])} handle access sites reached (floor 5)")
    bad: Dict[tuple, dict] = {}
    for c, f, fd in results:
        if fd["what"] != "owner":
            continue
        b = bad.setdefault((f, fd["site"], fd["op"]), {"classes": [], **fd})
        b["classes"].append(c.short)
    entries: Dict[Func, Set[str]] = {}
    for c in fam.line_classes + [fam.map_file]:
        for f in fam.entry_points(c, include_mixins):
            entries.setdefault(f, set()).add(c.short)
    for f, classes in sorted(entries.items(), key=lambda kv: kv[0].qual):
        rep.fn(f)
        mine = [(k, v) for k, v in bad.items() if k[0] is f]
        if not mine:
            rep.ok("C18.R1", f, "owner", f"every handle access owned ({len(classes)} concrete classes)")
        for (ff, site, op), b in mine:
            rep.viol("C18.R1", (b["file"], f.short, b["line"]), f"owner:{site}:{op}",
                     f"{op} at {b['file']}:{b['line']} ({site}) reached without the re-open helper via "
                     f"{' -> '.join(b['chain'])}; classes: {', '.join(sorted(set(b['classes'])))}",
                     witness={"chain": b["chain"], "classes": sorted(set(b["classes"]))},
                     scenario="open in the parent, fork two children: both use the inherited open file description, a "
                              "seek of one child falls between the seek and the readline of the other, which then "
                              "returns another line", line=b["line"])


class _OpenRecords(Client):
    """state = (handle assigned?, pid recorded?) along one open()/close() method"""

    def __init__(self, prog, func: Func, handles, pid, want_open: bool):
        self.P, self.func, self.handles, self.pid, self.want_open = prog, func, handles, pid, want_open

    def should_inline(self, func, call, ctx):
        return False

    def event(self, kind, node, state, ctx: Ctx):
        h, p = state
        if kind == "store" and isinstance(node, ast.Attribute) and ctx.scope.is_self(node.value):
            val = assigned_value(node)
            if node.attr in self.handles:
                if self.want_open and isinstance(val, ast.Call):
                    return ((True, p),)
                if not self.want_open and isinstance(val, ast.Constant) and val.value is None:
                    return ((True, p),)
            if node.attr == self.pid:
                if self.want_open:
                    return ((h, is_call_to(self.P, ctx.func, val, "os.getpid")),)
                return ((h, isinstance(val, ast.Constant) and val.value is None),)
        return (state,)


def r2_helper(prog, rep: Report, fam: Family):
    rep.rule("C18.R2", "the helper really re-opens: it compares the recorded pid with os.getpid() and closes+opens when "
             "they differ; every open() that assigns a handle records os.getpid() on the same path; every close() that "
             "drops the handle clears the pid", floor=6)
    seen = set()
    for c in fam.line_classes + [fam.map_file]:
        helper = fam.reopen[c.qual]
        pid = fam.pid_field[c.qual]
        if helper not in seen:
            seen.add(helper)
            rep.fn(helper)
            _check_helper(prog, rep, helper, pid, c)
        for name, want_open in (("open", True), ("close", False)):
            f = prog.resolve(c, name)
            if f is None or f in seen:
                continue
            seen.add(f)
            rep.fn(f)
            client = _OpenRecords(prog, f, fam.handles[c.qual], pid, want_open)
            it = Interp(prog, client)
            ex = it.run(f, {(False, False)}, c)
            finals = ex.normal | ex.ret
            badp = [s for s in finals if s[0] and not s[1]]
            stamp_only = [s for s in finals if s[1] and not s[0]]
            if want_open and stamp_only:
                rep.viol("C18.R2", f, "open:pid-only-with-handle",
                         f"a path of open() records os.getpid() in self.{pid} without opening a new handle (the no-op path of an "
                         f"already open file re-stamps the owner)",
                         scenario="a forked worker calls f.open() before its first read: the inherited handle is stamped with the "
                                  "worker's pid, the re-open helper never fires and the worker shares the parent's file position")
            if want_open:
                touched = any(s[0] for s in finals)
                if not touched:
                    rep.unrec("C18.R2", f, "open:records-pid", "open() never assigns a handle")
                    continue
                rep.check("C18.R2", f, "open:records-pid", not badp,
                          f"every path that assigns a handle records os.getpid() in self.{pid}",
                          f"a path of open() assigns the handle without recording os.getpid() in self.{pid}",
                          scenario="a child forked after this open() compares against a stale/None pid, never re-opens and "
                                   "shares the parent's file position")
            else:
                rep.check("C18.R2", f, "close:clears-pid", not badp,
                          f"every path that drops the handle clears self.{pid}",
                          f"a path of close() drops the handle but keeps self.{pid}",
                          scenario="close(); fork; open() in the child is skipped or the helper closes a None handle")


class _HelperCompares(Client):
    """state = (pid comparison evaluated, file known to be not open)"""

    def __init__(self, prog, pid, handles):
        self.P, self.pid, self.handles = prog, pid, handles

    def should_inline(self, func, call, ctx):
        return False

    def refine(self, test, state, ctx):
        cmpd, notopen = state
        sn = ctx.func.self_name
        if isinstance(test, ast.Compare) and len(test.ops) == 1:
            l, r, op = test.left, test.comparators[0], test.ops[0]
            d = dotted(l)
            if d and len(d) == 2 and d[0] == sn and (d[1] == self.pid or d[1] in self.handles) and const_value(r, 0) is None:
                if isinstance(op, ast.IsNot):
                    return ((cmpd, False),), ((cmpd, True),)
                if isinstance(op, ast.Is):
                    return ((cmpd, True),), ((cmpd, False),)
            if any(is_call_to(self.P, ctx.func, x, "os.getpid") for x in (l, r)):
                return ((True, notopen),), ((True, notopen),)
        return (state,), (state,)


def _check_helper(prog, rep: Report, f: Func, pid: str, c: Cls):
    from .filefam import Family
    it = Interp(prog, _HelperCompares(prog, pid, {"file", "mm"}))
    ex = it.run(f, {(False, False)}, c)
    skipped = [s_ for s_ in (ex.normal | ex.ret) if not s_[0] and not s_[1]]
    rep.check("C18.R2", f, "helper:always-compares", not skipped,
              "every path through the helper compares the recorded pid with os.getpid() (unless the file is not open)",
              "the helper can return without comparing the recorded pid with os.getpid() although the file is open (an early exit "
              "on per-object state, which a fork copies)",
              scenario="the parent reads a line, then forks: the children inherit the 'already verified' state, never compare "
                       "pids and keep using the parent's handle")
    sn = f.self_name
    verdict = None
    detail = ""
    for n in walk_own(f.node):
        if not isinstance(n, ast.If):
            continue
        cmp_ = None
        for sub in ast.walk(n.test):
            if isinstance(sub, ast.Compare) and len(sub.ops) == 1:
                parts = [sub.left, sub.comparators[0]]
                if any(is_call_to(prog, f, x, "os.getpid") for x in parts) and any(dotted(x) == (sn, pid) for x in parts):
                    cmp_ = sub
        if cmp_ is None:
            continue
        op = cmp_.ops[0]
        if isinstance(op, (ast.NotEq, ast.IsNot)):
            branch = n.body
        elif isinstance(op, (ast.Eq, ast.Is)):
            branch = n.orelse
        else:
            verdict, detail = False, f"pid compared with {type(op).__name__}"
            break
        # the comparison must not be weakened by an `or`-free conjunction only (x is not None and pid != x is fine)
        neg = False
        p = getattr(cmp_, "_parent", None)
        while p is not None and p is not n:
            if isinstance(p, ast.UnaryOp) and isinstance(p.op, ast.Not):
                neg = not neg
            if isinstance(p, ast.BoolOp) and isinstance(p.op, ast.Or):
                verdict, detail = None, "pid comparison under `or`"
            p = getattr(p, "_parent", None)
        if neg:
            branch = n.orelse if branch is n.body else n.body
        order = []
        for st in branch:
            for call in ast.walk(st):
                if isinstance(call, ast.Call) and isinstance(call.func, ast.Attribute) and isinstance(call.func.value, ast.Name) \
                        and call.func.value.id == sn and call.func.attr in ("close", "open"):
                    order.append(call.func.attr)
        if order[:2] == ["close", "open"] or order == ["open"] and False:
            verdict, detail = True, "pid differs -> close(); open()"
        elif "open" in order and "close" not in order:
            verdict, detail = False, "re-opens without closing: open() is a no-op while the inherited handle is set"
        else:
            verdict, detail = False, f"branch taken when the pid differs does not close+open (calls: {order})"
        break
    if verdict is None:
        rep.unrec("C18.R2", f, "helper", "no `if` comparing the pid field with os.getpid() found " + detail)
    else:
        rep.check("C18.R2", f, "helper", verdict, detail, detail,
                  scenario="a forked child keeps using the parent's open file description; seeks of different "
                           "processes interleave")
