"""C18 — one opened line/map file can be read from many forked processes at once (DESIGN.md §6)."""
from __future__ import annotations

import ast
from typing import Dict, Set

from ..absint import Client, Ctx, Interp
from ..flow import Flow
from ..model import Cls, Func, Program, walk_own
from ..report import Report
from ..resolve import const_value, dotted
from ..util import assigned_value, calls_in, ext_name, src
from .filefam import Family, is_call_to, run_typestate


def run(prog: Program, rep: Report, include_mixins: bool = True):
    fam = Family(prog)
    rep.attempt(lambda: r1_owner(prog, rep, fam, include_mixins))
    rep.attempt(lambda: r2_helper(prog, rep, fam))


def r1_owner(prog, rep: Report, fam: Family, include_mixins: bool):
    rep.rule("C18.R1", "ownership typestate: every seek/read of the shared handle is preceded, on all paths since "
             "entry of a public method or the last yield (the process may be a fresh fork), by the re-open helper",
             floor=20)
    results, stats = run_typestate(prog, fam, include_mixins)
    rep.count("entry_points", stats["entry_points"])
    rep.count("abstract_states", stats["abstract_states"])
    rep.count("events", stats["events"])
    rep.count("handle_access_sites", len(stats["handle_sites"]))
    for u in stats["unrecognised"]:
        rep.error(f"C18.R1 interpreter: {u}")
    if len(stats["handle_sites"]) < 5:
        rep.error(f"C18.R1: only {len(stats['handle_sites'])} handle access sites reached (floor 5)")
    bad: Dict[tuple, dict] = {}
    for c, f, fd in results:
        if fd["what"] not in ("owner", "lost"):
            continue
        b = bad.setdefault((f, fd["site"], fd["op"] + (":position-lost-by-reopen" if fd["what"] == "lost" else "")), {"classes": [], **fd})
        b["classes"].append(c.short)
    entries: Dict[Func, Set[str]] = {}
    for c in fam.line_classes + [fam.map_file]:
        for f in fam.entry_points(c, include_mixins):
            entries.setdefault(f, set()).add(c.short)
    for f, classes in sorted(entries.items(), key=lambda kv: kv[0].qual):
        rep.fn(f)
        mine = [(k, v) for k, v in bad.items() if k[0] is f]
        if not mine:
            rep.ok("C18.R1", f, "owner", f"every handle access owned ({len(classes)} concrete classes)")
        for (ff, site, op), b in mine:
            rep.viol("C18.R1", (b["file"], f.short, b["line"]), f"owner:{site}:{op}",
                     (f"{op} at {b['file']}:{b['line']} ({site}) follows a re-open in a new process without a seek (the fresh handle "
                      f"stands at offset 0) via " if op.endswith("position-lost-by-reopen") else
                      f"{op} at {b['file']}:{b['line']} ({site}) reached without the re-open helper via ")
                     + f"{' -> '.join(b['chain'])}; classes: {', '.join(sorted(set(b['classes'])))}",
                     witness={"chain": b["chain"], "classes": sorted(set(b["classes"]))},
                     scenario="open in the parent, fork two children: both use the inherited open file description, a "
                              "seek of one child falls between the seek and the readline of the other, which then "
                              "returns another line", line=b["line"])


class _OpenRecords(Client):
    """state = (handle assigned?, pid recorded?) along one open()/close() method"""

    def __init__(self, prog, func: Func, handles, pid, want_open: bool):
        self.P, self.func, self.handles, self.pid, self.want_open = prog, func, handles, pid, want_open

    def should_inline(self, func, call, ctx):
        return False

    def event(self, kind, node, state, ctx: Ctx):
        h, p = state
        if kind == "store" and isinstance(node, ast.Attribute) and ctx.scope.is_self(node.value):
            val = assigned_value(node)
            if node.attr in self.handles:
                if self.want_open and isinstance(val, ast.Call):
                    return ((True, p),)
                if not self.want_open and isinstance(val, ast.Constant) and val.value is None:
                    return ((True, p),)
            if node.attr == self.pid:
                if self.want_open:
                    return ((h, is_call_to(self.P, ctx.func, val, "os.getpid")),)
                return ((h, isinstance(val, ast.Constant) and val.value is None),)
        return (state,)


def r2_helper(prog, rep: Report, fam: Family):
    rep.rule("C18.R2", "the helper really re-opens: it compares the recorded pid with os.getpid() and closes+opens when "
             "they differ; every open() that assigns a handle records os.getpid() on the same path; every close() that "
             "drops the handle clears the pid", floor=6)
    seen = set()
    for c in fam.line_classes + [fam.map_file]:
        helper = fam.reopen[c.qual]
        pid = fam.pid_field[c.qual]
        if helper not in seen:
            seen.add(helper)
            rep.fn(helper)
            fid = fam.foreign_identity.get(c.qual)
            if fid is not None:
                f_open, st = fid
                rep.viol("C18.R2", f_open, "owner-identity", f"open() records the owner as `{src(st.value)}`, not as os.getpid(): two processes "
                         "can carry the same identity (every child made by plain os.fork() keeps the parent's multiprocessing name), so "
                         "the re-open test cannot tell them apart",
                         scenario="pid = os.fork(); the child reads through the inherited handle: parent and child share one file offset",
                         line=st.lineno)
                continue
            foreign = fam.reopen_foreign_compare.get(c.qual)
            if foreign is not None:
                cmp_, other = foreign
                rep.viol("C18.R2", helper, "helper", f"the re-open test `{src(cmp_)}` compares the recorded owner with `{src(other)}`, "
                         "not with os.getpid(): only a process whose own pid differs from the recorded one is a different process",
                         scenario="a grandchild (or any process the test does not single out) keeps the inherited handle and shares "
                                  "the file offset with the opener", line=cmp_.lineno)
                continue
            _check_helper(prog, rep, fam.reopen_view.get(c.qual, helper), pid, c)
        for name, want_open in (("open", True), ("close", False)):
            f = prog.resolve(c, name)
            if f is None or f in seen:
                continue
            seen.add(f)
            rep.fn(f)
            if want_open:
                # a new open file description: the handle is made from the path, never from a descriptor (dup() / fdopen() / an int
                # argument share the file offset with the process the descriptor came from)
                stores: Dict[str, set] = {}
                for k_ in c.repo_mro():
                    if k_.is_external:
                        continue
                    for g_ in k_.methods.values():
                        if g_.self_name is None:
                            continue
                        for n_ in ast.walk(g_.node):
                            if isinstance(n_, ast.Attribute) and isinstance(n_.ctx, ast.Store) and isinstance(n_.value, ast.Name) \
                                    and n_.value.id == g_.self_name:
                                stores.setdefault(n_.attr, set()).add(g_.name)
                bad_src = []
                for cl_ in calls_in(f.node):
                    en = ext_name(prog, f, cl_)
                    if en in ("open", "io.open") and cl_.args:
                        a0 = cl_.args[0]
                        d0 = dotted(a0)
                        is_cfg = bool(d0) and len(d0) == 2 and d0[0] == f.self_name \
                            and stores.get(d0[1]) == {"__init__"}
                        if not is_cfg:
                            bad_src.append((cl_.lineno, f"`{src(cl_)[:70]}` does not open the path stored by the constructor"))
                    if en in ("os.dup", "os.dup2", "os.fdopen"):
                        bad_src.append((cl_.lineno, f"`{src(cl_)[:70]}` re-uses an existing descriptor"))
                helper_ = fam.reopen[c.qual]
                for cl_ in calls_in(helper_.node):
                    if ext_name(prog, helper_, cl_) in ("os.dup", "os.dup2", "os.fdopen") or \
                            (isinstance(cl_.func, ast.Attribute) and cl_.func.attr == "fileno"):
                        bad_src.append((cl_.lineno, f"the re-open helper derives the new handle from the inherited one (`{src(cl_)[:60]}`)"))
                if bad_src:
                    ln_, why_ = sorted(set(bad_src))[0]
                    rep.viol("C18.R2", f, "open:from-path", why_ + ": a duplicated descriptor shares its file offset with the process it "
                             "was inherited from",
                             scenario="parent and forked child seek and read through descriptors of one open file description: the "
                                      "seeks interleave", line=ln_)
                else:
                    rep.ok("C18.R2", f, "open:from-path", "every handle is opened from the path the constructor stored")
            client = _OpenRecords(prog, f, fam.handles[c.qual], pid, want_open)
            it = Interp(prog, client)
            ex = it.run(f, {(False, False)}, c)
            finals = ex.normal | ex.ret
            badp = [s for s in finals if s[0] and not s[1]]
            stamp_only = [s for s in finals if s[1] and not s[0]]
            if want_open and stamp_only:
                rep.viol("C18.R2", f, "open:pid-only-with-handle",
                         f"a path of open() records os.getpid() in self.{pid} without opening a new handle (the no-op path of an "
                         f"already open file re-stamps the owner)",
                         scenario="a forked worker calls f.open() before its first read: the inherited handle is stamped with the "
                                  "worker's pid, the re-open helper never fires and the worker shares the parent's file position")
            if want_open:
                touched = any(s[0] for s in finals)
                if not touched:
                    rep.unrec("C18.R2", f, "open:records-pid", "open() never assigns a handle")
                    continue
                rep.check("C18.R2", f, "open:records-pid", not badp,
                          f"every path that assigns a handle records os.getpid() in self.{pid}",
                          f"a path of open() assigns the handle without recording os.getpid() in self.{pid}",
                          scenario="a child forked after this open() compares against a stale/None pid, never re-opens and "
                                   "shares the parent's file position")
            else:
                rep.check("C18.R2", f, "close:clears-pid", not badp,
                          f"every path that drops the handle clears self.{pid}",
                          f"a path of close() drops the handle but keeps self.{pid}",
                          scenario="close(); fork; open() in the child is skipped or the helper closes a None handle")





def _flow_of(func):
    """reaching definitions of the function (kept per node object; nodes are not shared between program variants)"""
    fl = getattr(func.node, "_flow", None)
    if fl is None:
        fl = Flow(func.node)
        func.node._flow = fl
    return fl


class _HelperCompares(Client):
    """state = (pid comparison evaluated, file known to be not open)"""

    def __init__(self, prog, pid, handles):
        self.P, self.pid, self.handles = prog, pid, handles

    def should_inline(self, func, call, ctx):
        # a private predicate of the class that holds the comparison (`_opened_by_another_process()`) is part of the helper
        return func.cls is not None and not func.cls.is_external and func.name.startswith("_") and not func.name.startswith("__") \
            and func.name not in ("open", "close")

    def refine(self, test, state, ctx):
        cmpd, notopen = state
        sn = ctx.func.self_name
        if isinstance(test, ast.Compare) and len(test.ops) == 1:
            fl = _flow_of(ctx.func)
            l, r, op = fl.expand(test.left), fl.expand(test.comparators[0]), test.ops[0]
            d = dotted(l)
            if d and len(d) == 2 and d[0] == sn and (d[1] == self.pid or d[1] in self.handles) and const_value(r, 0) is None:
                if isinstance(op, ast.IsNot):
                    return ((cmpd, False),), ((cmpd, True),)
                if isinstance(op, ast.Is):
                    return ((cmpd, True),), ((cmpd, False),)
            pid_locals = {a_.targets[0].id for a_ in walk_own(ctx.func.node) if isinstance(a_, ast.Assign)
                          and isinstance(a_.targets[0], ast.Name) and is_call_to(self.P, ctx.func, a_.value, "os.getpid")}
            if any(is_call_to(self.P, ctx.func, x, "os.getpid") or (isinstance(x, ast.Name) and x.id in pid_locals) for x in (l, r)):
                return ((True, notopen),), ((True, notopen),)
        return (state,), (state,)


    def event(self, kind, node, state, ctx):
        # the comparison may be evaluated as a value (`return os.getpid() != self._pid`, `other = os.getpid() != ...`) and tested
        # by the caller: evaluating it is what counts
        cmpd, notopen = state
        val = node.value if kind == "return" and node is not None else (assigned_value(node) if kind == "store" else None)
        if val is not None and not cmpd:
            fl = _flow_of(ctx.func)
            for c in ast.walk(val):
                if isinstance(c, ast.Compare) and len(c.ops) == 1 and isinstance(c.ops[0], (ast.Eq, ast.NotEq, ast.Is, ast.IsNot)):
                    sides = [fl.expand(x) if isinstance(x, ast.Name) else x for x in (c.left, c.comparators[0])]   # owner_pid = self._pid
                    if any(is_call_to(self.P, ctx.func, x, "os.getpid") for x in sides) \
                            and any(dotted(x) and dotted(x)[-1] == self.pid for x in sides):
                        return ((True, notopen),)
        return (state,)


class _HelperOrder(Client):
    """state = (pid differs?: None|True|False, old handle released, new handle obtained, pid recorded)"""

    def __init__(self, prog, pid, handles, helper):
        self.P, self.pid, self.handles, self.helper = prog, pid, handles, helper
        self.pid_before_handle = False
        self._as_inlined = False

    def should_inline(self, func, call, ctx):
        return func.name in ("open", "close")

    def _is_pid_value(self, e, ctx) -> bool:
        if e is None:
            return False
        if is_call_to(self.P, ctx.func, e, "os.getpid"):
            return True
        if isinstance(e, ast.Name):
            for a_ in walk_own(ctx.func.node):
                if isinstance(a_, ast.Assign) and isinstance(a_.targets[0], ast.Name) and a_.targets[0].id == e.id \
                        and is_call_to(self.P, ctx.func, a_.value, "os.getpid"):
                    return True
        return False

    def refine(self, test, state, ctx):
        differs, rel, new, rec = state
        if ctx.func is self.helper and isinstance(test, ast.Compare) and len(test.ops) == 1:
            fl = _flow_of(ctx.func)
            l, r, op = fl.expand(test.left), fl.expand(test.comparators[0]), test.ops[0]
            if (self._is_pid_value(l, ctx) and dotted(r) == (ctx.func.self_name, self.pid)) or \
                    (self._is_pid_value(r, ctx) and dotted(l) == (ctx.func.self_name, self.pid)):
                t, f_ = (True, rel, new, rec), (False, rel, new, rec)
                if isinstance(op, (ast.NotEq, ast.IsNot)):
                    return (t,), (f_,)
                if isinstance(op, (ast.Eq, ast.Is)):
                    return (f_,), (t,)
        # a property of the object that is one `return <test over the object's fields>` (`closed`) reads as that test
        if isinstance(test, ast.Attribute) and ctx.scope.is_self(test.value) and ctx.scope.cls is not None:
            pf = self.P.resolve(ctx.scope.cls, test.attr)
            if pf is not None and pf.is_property and not pf.is_abstract:
                body = [st for st in pf.node.body if not (isinstance(st, ast.Expr) and isinstance(st.value, ast.Constant))]
                if len(body) == 1 and isinstance(body[0], ast.Return) and body[0].value is not None and pf.self_name == ctx.func.self_name:
                    saved = self._as_inlined
                    self._as_inlined = True
                    try:
                        return self.refine(body[0].value, state, ctx)
                    finally:
                        self._as_inlined = saved
        # inside the inlined open(): `if self.file is None` follows what close() did
        if (ctx.func is not self.helper or self._as_inlined) and ctx.func is not self.helper and isinstance(test, ast.Compare) and len(test.ops) == 1 and const_value(test.comparators[0], 0) is None:
            d = dotted(test.left)
            if d and len(d) == 2 and d[1] in self.handles:
                is_none = rel
                if isinstance(test.ops[0], ast.Is):
                    return ((state,), ()) if is_none else ((), (state,))
                if isinstance(test.ops[0], ast.IsNot):
                    return ((), (state,)) if is_none else ((state,), ())
        return (state,), (state,)

    def event(self, kind, node, state, ctx):
        differs, rel, new, rec = state
        if kind == "store" and isinstance(node, ast.Attribute) and ctx.scope.is_self(node.value):
            av = assigned_value(node)
            if node.attr in self.handles:
                if av is not None and const_value(av, 0) is None:
                    return ((differs, True, new, rec),)
                if isinstance(av, ast.Call):
                    return ((differs, True if ctx.func is self.helper else rel, True, rec),)
            if node.attr == self.pid and self._is_pid_value(av, ctx):
                if differs and not new:
                    self.pid_before_handle = True
                return ((differs, rel, new, True),)
        return (state,)


def _check_helper(prog, rep: Report, f: Func, pid: str, c: Cls):
    from .filefam import Family
    it = Interp(prog, _HelperCompares(prog, pid, {"file", "mm"}))
    ex = it.run(f, {(False, False)}, c)
    skipped = [s_ for s_ in (ex.normal | ex.ret) if not s_[0] and not s_[1]]
    rep.check("C18.R2", f, "helper:always-compares", not skipped,
              "every path through the helper compares the recorded pid with os.getpid() (unless the file is not open)",
              "the helper can return without comparing the recorded pid with os.getpid() although the file is open (an early exit "
              "on per-object state, which a fork copies)",
              scenario="the parent reads a line, then forks: the children inherit the 'already verified' state, never compare "
                       "pids and keep using the parent's handle")
    sn = f.self_name
    fam_handles = {"file", "mm"}
    client = _HelperOrder(prog, pid, fam_handles, f)
    it2 = Interp(prog, client)
    ex2 = it2.run(f, {(None, False, False, False)}, c)
    finals = ex2.normal | ex2.ret
    differs = [s_ for s_ in finals if s_[0] is True]
    verdict, detail = None, ""
    if differs:
        if client.pid_before_handle:
            verdict, detail = False, ("the new owner pid is recorded before the new handle exists: if the open fails the object claims to "
                                      "be owned by this process while it still holds the inherited handle")
        elif not all(s_[2] for s_ in differs):
            verdict, detail = False, "the branch taken when the pid differs does not obtain a new handle"
        elif not all(s_[1] for s_ in differs):
            verdict, detail = False, "re-opens without closing/dropping the inherited handle first: open() is a no-op while a handle is set"
        elif not all(s_[3] for s_ in differs):
            verdict, detail = False, "the branch taken when the pid differs does not record the new owner pid"
        else:
            verdict, detail = True, "pid differs -> inherited handle released, new handle opened, then the owner pid recorded"
    if verdict is None:
        rep.unrec("C18.R2", f, "helper", "no `if` comparing the pid field with os.getpid() found " + detail)
    else:
        rep.check("C18.R2", f, "helper", verdict, detail, detail,
                  scenario="a forked child keeps using the parent's open file description; seeks of different "
                           "processes interleave")
