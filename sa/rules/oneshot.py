"""One-shot iterables are consumed at most once on every path (shared by several properties).

A parameter annotated ``Iterable`` / ``Iterator`` / ``Generator`` (or an ``Optional``/``Union`` of these without a
``Sequence``/``Collection`` alternative that the function discriminates) may be a generator: the second traversal sees
nothing.  The analysis is a typestate over the structured interpreter (E1): per tracked parameter FRESH -> CONSUMED by
  * ``for x in P`` / a comprehension over P (also through enumerate / zip / iter / reversed / map / filter),
  * a call that takes P as a positional or keyword argument (list(P), sorted(P), set(P), f(P): an unknown callee may
    traverse it),
and the parameter leaves the tracked set when the name is re-bound (``b = list(b)``: from then on it is a concrete
container).  A consumption of a CONSUMED parameter is reported with both sites.  Exceptional flow is the engine's:
a handler is entered with every state the try body can be in, so ``try: return sorted(a) == ... except TypeError: pass``
followed by ``for x in a`` is a double consumption on the handler path.
Not a consumption: ``len(P)``, ``isinstance(P, T)``, ``P is None``, subscripts and attribute access.
"""
from __future__ import annotations

import ast
from typing import Dict, List, Optional, Set, Tuple

from ..absint import Client, Ctx, Interp
from ..model import Cls, Func, Program
from ..report import Report
from ..util import src

ONE_SHOT_ANN = ("Iterable", "Iterator", "Generator")
REITERABLE_ANN = ("Sequence", "List", "list", "Tuple", "tuple", "Dict", "dict", "Mapping", "Set", "set", "Collection", "str",
                  "MutableSequence", "MutableMapping", "Sized")
PASS_THROUGH = {"enumerate", "zip", "iter", "reversed", "map", "filter", "chain", "itertools.chain", "islice", "itertools.islice"}
NOT_CONSUMING = {"len", "isinstance", "id", "type", "hasattr", "getattr", "callable", "repr", "str", "bool", "print"}


def one_shot_params(f: Func) -> List[str]:
    out = []
    a = f.node.args
    for arg in a.posonlyargs + a.args + a.kwonlyargs:
        if arg.annotation is None:
            continue
        t = ast.unparse(arg.annotation)
        names = {n.id if isinstance(n, ast.Name) else n.attr for n in ast.walk(arg.annotation) if isinstance(n, (ast.Name, ast.Attribute))}
        if names & set(ONE_SHOT_ANN):
            out.append(arg.arg)
    return out


class _OneShot(Client):
    """state = frozenset of (param, line of first consumption)"""

    def __init__(self, tracked: Set[str]):
        self.tracked = tracked
        self.double: List[Tuple[str, int, int, str]] = []
        self.consumptions = 0

    def should_inline(self, func, call, ctx):
        return False

    @staticmethod
    def _roots(e) -> List[str]:
        """parameter names an iteration expression traverses: P, enumerate(P), zip(P, Q), iter(P) ..."""
        if isinstance(e, ast.Name):
            return [e.id]
        if isinstance(e, ast.Starred):
            return _OneShot._roots(e.value)
        if isinstance(e, ast.Call) and src(e.func) in PASS_THROUGH:
            out = []
            for a in e.args:
                out += _OneShot._roots(a)
            return out
        return []

    def event(self, kind, node, state, ctx: Ctx):
        live = {k: v for k, v in state if k != "M"}
        mat = {v for k, v in state if k == "M"}

        def pack(lv):
            return (frozenset(list(lv.items()) + [("M", m) for m in mat]),)

        def consume(names, line, what):
            for n in names:
                if n not in self.tracked or n in mat:
                    continue
                self.consumptions += 1
                if n in live:
                    self.double.append((n, live[n], line, what))
                else:
                    live[n] = line

        if kind == "iter":
            consume(self._roots(node), node.lineno, f"iterated by `for ... in {src(node)}`")
            return pack(live)
        if kind == "lazy_genexp" and isinstance(node, ast.GeneratorExp):
            consume(self._roots(node.generators[0].iter), node.lineno, f"wrapped by the generator expression `{src(node)[:60]}`")
            return pack(live)
        if kind == "loophead" and isinstance(node, ast.comprehension):
            consume(self._roots(node.iter), node.iter.lineno, f"iterated by a comprehension over `{src(node.iter)}`")
            return pack(live)
        if kind in ("call", "construct", "lazy_gen", "proto_call") and isinstance(node, ast.Call):
            fname = src(node.func)
            if fname in NOT_CONSUMING or fname in PASS_THROUGH:
                return (state,)
            names = []
            for a in list(node.args) + [k.value for k in node.keywords]:
                names += self._roots(a)
            consume(names, node.lineno, f"passed to `{fname}(...)`")
            return pack(live)
        if kind == "store" and isinstance(node, ast.Name) and node.id in self.tracked:
            mat.add(node.id)
            live.pop(node.id, None)
            return pack(live)
        return (state,)


def check_oneshot(prog: Program, rep: Report, rule: str, f: Func, cls: Optional[Cls] = None, role: Optional[str] = None,
                  params: Optional[List[str]] = None, scenario: str = ""):
    """one instance per function: every one-shot parameter is consumed at most once on every path"""
    tracked = params if params is not None else one_shot_params(f)
    role = role or f"one-shot:{f.name}"
    rep.fn(f)
    if not tracked:
        rep.unrec(rule, f, role, "no parameter annotated Iterable/Iterator/Generator")
        return
    client = _OneShot(set(tracked))
    it = Interp(prog, client)
    it.run(f, {frozenset()}, cls)
    if it.unrecognised:
        rep.unrec(rule, f, role, "; ".join(it.unrecognised))
        return
    if client.double:
        n, l1, l2, what = sorted(set(client.double))[0]
        rep.viol(rule, f, role, f"the iterable parameter `{n}` is consumed at line {l1} and again at line {l2} ({what}) on one path: "
                 "a generator or iterator argument is exhausted by the first traversal",
                 scenario=scenario or f"{f.name}(iter([...]), ...) sees an empty `{n}` the second time", line=l2)
    else:
        rep.ok(rule, f, role, f"{', '.join(tracked)}: at most one traversal on every path ({client.consumptions} consumption sites)")


def oneshot_rule(prog: Program, rep: Report, rule: str, funcs: List[Func], why: str = ""):
    """one rule instance per function in ``funcs`` (all must exist: a vanished anchor is an analysis error via the floor)"""
    rep.rule(rule, "one-shot inputs are traversed once: a parameter annotated Iterable/Iterator/Generator is consumed (iterated, "
             "or handed to a call) at most once on every path, unless it was re-bound to a concrete container first"
             + (f"; {why}" if why else ""), floor=len(funcs))
    for f in funcs:
        check_oneshot(prog, rep, rule, f, f.cls)



def oneshot_field_rule(prog: Program, rep: Report, rule: str, cls: Cls, declare: bool = True):
    """a one-shot constructor argument that is kept as given in a field is not also traversed by the constructor: the methods that
    walk the field later would find it exhausted"""
    from ..flow import Flow
    from ..util import iter_stores
    from .memo import own_methods
    if declare:
        rep.rule(rule, "a constructor argument annotated Iterable/Iterator/Generator that is stored as given in a field and traversed "
                 "later through that field is not traversed by the constructor as well (a generator argument would be exhausted "
                 "before the first use of the field)", floor=1)
    init = prog.resolve(cls, "__init__")
    if init is None or getattr(init.cls, "is_external", False):
        return
    rep.fn(init)
    role = f"one-shot-field:{cls.name}"
    tracked = one_shot_params(init)
    flow = Flow(init.node)
    kept = {}
    for t, v, st in iter_stores(init.node):
        if isinstance(t, ast.Attribute) and isinstance(t.value, ast.Name) and t.value.id == init.self_name and isinstance(v, ast.Name) \
                and v.id in tracked and flow.origin_is_param(v, v.id):
            kept[t.attr] = (v.id, st)
    if not kept:
        rep.ok(rule, init, role, "no one-shot parameter is stored as given")
        return
    client = _OneShot(set(tracked))
    it = Interp(prog, client)
    ex = it.run(init, {frozenset()}, cls)
    if it.unrecognised:
        rep.unrec(rule, init, role, "; ".join(it.unrecognised))
        return
    consumed = {}
    for stt in ex.normal | ex.ret:
        for k, v in stt:
            if k != "M":
                consumed[k] = v
    for fld, (pname, st) in sorted(kept.items()):
        if pname not in consumed:
            continue
        # is the field traversed anywhere else?
        later = None
        for m in own_methods(cls):
            if m.name == "__init__":
                continue
            for n in ast.walk(m.node):
                itx = None
                if isinstance(n, (ast.For, ast.comprehension)):
                    itx = n.iter
                elif isinstance(n, ast.Call) and src(n.func) not in NOT_CONSUMING:
                    for a in n.args:
                        if isinstance(a, ast.Attribute) and isinstance(a.value, ast.Name) and a.value.id == m.self_name and a.attr == fld:
                            itx = a
                roots = []
                if itx is not None:
                    for x in ast.walk(itx):
                        if isinstance(x, ast.Attribute) and isinstance(x.value, ast.Name) and x.value.id == m.self_name and x.attr == fld:
                            roots.append(x)
                if roots:
                    later = (m, roots[0])
                    break
            if later:
                break
        if later:
            m, node = later
            rep.viol(rule, init, role, f"the constructor traverses its iterable argument `{pname}` (line {consumed[pname]}) and also keeps "
                     f"it as given in self.{fld}, which {m.name}() walks (line {node.lineno}): a generator / map argument is exhausted "
                     "before that",
                     scenario=f"{cls.name}(p for p in paths): the later walk over self.{fld} sees nothing", line=consumed[pname])
            return
    rep.ok(rule, init, role, f"{', '.join(sorted(kept))} kept as given; the constructor does not traverse them")
