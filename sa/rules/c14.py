"""C14 — TextFileStorage: what is stored under an id is what any process reads back (DESIGN.md §6)."""
from __future__ import annotations

import ast
from typing import Dict, List, Optional, Set, Tuple

from ..absint import Client, Ctx, Interp
from ..flow import Flow
from ..model import AnalysisError, Cls, Func, Program, walk_own
from ..report import Report
from ..resolve import const_value, dotted, kwarg
from ..util import assigned_value, calls_in, ext_name, is_manager_expr, manager_fields, returns_of, src

STORAGE_MOD = "windpyutils.parallel.storage"
MUTATING = {"append", "extend", "insert", "pop", "remove", "clear", "sort", "reverse", "__setitem__", "__delitem__"}


class StorageFacts:
    def __init__(self, prog: Program):
        self.P = prog
        self.cls = prog.cls("TextFileStorage", STORAGE_MOD)
        init = prog.method(self.cls, "__init__")
        self.shared_lists: List[str] = []
        self.shared_values: List[str] = []
        self.lock = None
        self.init_values: Dict[str, ast.expr] = {}
        mgrs = manager_fields(prog, self.cls)
        for n in walk_own(init.node):
            tgt, val = None, None
            if isinstance(n, ast.Assign) and len(n.targets) == 1:
                tgt, val = n.targets[0], n.value
            elif isinstance(n, ast.AnnAssign) and n.value is not None:
                tgt, val = n.target, n.value
            d = dotted(tgt) if tgt is not None else None
            if not (d and len(d) == 2 and d[0] == init.self_name):
                continue
            self.init_values[d[1]] = val
            if isinstance(val, ast.Call):
                name = prog.external_name(init.mod, val.func) or src(val.func)
                if isinstance(val.func, ast.Attribute) and val.func.attr == "list" and is_manager_expr(val.func.value, init.self_name, mgrs):
                    self.shared_lists.append(d[1])
                elif name.split(".")[-1] == "Value":
                    self.shared_values.append(d[1])
                elif name.split(".")[-1] in ("RLock", "Lock"):
                    self.lock = d[1]
        if len(self.shared_lists) < 2 or len(self.shared_values) < 2 or self.lock is None:
            raise AnalysisError(f"TextFileStorage: shared state not discoverable (lists={self.shared_lists}, "
                                f"values={self.shared_values}, lock={self.lock})")
        self.setitem = prog.method(self.cls, "__setitem__")
        self.getitem = prog.method(self.cls, "__getitem__")
        self.iter = prog.method(self.cls, "__iter__")
        self.flush = prog.method(self.cls, "flush")
        # the index: shared list subscripted with the identifier parameter in __setitem__
        gid = self.setitem.params[1]
        self.index = None
        for n in walk_own(self.setitem.node):
            if isinstance(n, ast.Assign) and isinstance(n.targets[0], ast.Subscript):
                d = dotted(n.targets[0].value)
                if d and len(d) == 2 and d[1] in self.shared_lists and src(n.targets[0].slice) == gid:
                    self.index = d[1]
        if self.index is None:
            raise AnalysisError("TextFileStorage.__setitem__: publication `self.<index>[id] = ...` not found")
        ln = prog.method(self.cls, "__len__")
        self.count = None
        for r in returns_of(ln.node):
            d = dotted(r.value) if r.value is not None else None
            if d and len(d) == 3 and d[2] == "value" and d[1] in self.shared_values:
                self.count = d[1]
        if self.count is None:
            raise AnalysisError("TextFileStorage.__len__ does not return a shared counter")
        self.cursor = [v for v in self.shared_values if v != self.count][0]
        # the write handle: the `file=` target of the print in __setitem__
        self.wfile = None
        sflow = Flow(self.setitem.node)
        for c in calls_in(self.setitem.node):
            if src(c.func) == "print":
                f = kwarg(c, "file")
                d = dotted(sflow.expand(f)) if f is not None else None          # `out = self._file; print(.., file=out)`
                if d and len(d) == 2:
                    self.wfile = d[1]
            elif isinstance(c.func, ast.Attribute) and c.func.attr == "write":
                d = dotted(sflow.expand(c.func.value))
                if d and len(d) == 2:
                    self.wfile = d[1]
        if self.wfile is None:
            raise AnalysisError("TextFileStorage.__setitem__: data write not found")

    def shared_of(self, e: ast.expr, self_name) -> Optional[str]:
        """name of the shared field that expression ``e`` designates (self.x, self.x.value, self.x[...])"""
        if isinstance(e, ast.Subscript):
            e = e.value
        d = dotted(e)
        if d and d[0] == self_name and len(d) >= 2:
            if d[1] in self.shared_lists and len(d) == 2:
                return d[1]
            if d[1] in self.shared_values and len(d) == 3 and d[2] == "value":
                return d[1]
        return None


# ---------------------------------------------------------------------------------------------- R1
class _LockRegions(Client):
    """state = lock depth (0, 1, 2)"""

    def __init__(self, sf: StorageFacts):
        self.sf = sf
        self.writes_outside: List[Tuple[str, int, str]] = []
        self.tests_outside: List[Tuple[str, int, str]] = []
        self.writes: Set[str] = set()
        self.sites = 0

    def should_inline(self, func, call, ctx):
        return func.cls is self.sf.cls

    def _is_lock(self, e, ctx) -> bool:
        return dotted(e) == (ctx.func.self_name, self.sf.lock)

    def event(self, kind, node, state, ctx: Ctx):
        sf = self.sf
        sn = ctx.func.self_name
        if kind == "with_enter" and self._is_lock(node.context_expr, ctx):
            return (min(2, state + 1),)
        if kind == "with_exit" and self._is_lock(node.context_expr, ctx):
            return (max(0, state - 1),)
        fld = None
        if kind == "store" and isinstance(node, (ast.Subscript, ast.Attribute)):
            fld = sf.shared_of(node, sn)
        elif kind == "aug":
            fld = sf.shared_of(node.target, sn)
        elif kind == "del" and isinstance(node, ast.Subscript):
            fld = sf.shared_of(node, sn)
        elif kind == "call" and isinstance(node, ast.Call) and isinstance(node.func, ast.Attribute) \
                and node.func.attr in MUTATING:
            fld = sf.shared_of(node.func.value, sn)
        if fld is not None:
            self.sites += 1
            self.writes.add(fld)
            if state == 0:
                self.writes_outside.append((fld, node.lineno, ctx.func.short))
        return (state,)

    def refine(self, test, state, ctx):
        if state == 0:
            for sub in ast.walk(test):
                if isinstance(sub, (ast.Attribute, ast.Subscript)):
                    fld = self.sf.shared_of(sub, ctx.func.self_name)
                    if fld is not None:
                        self.tests_outside.append((fld, test.lineno, ctx.func.short))
        return (state,), (state,)


def r1_lock(prog, rep: Report, sf: StorageFacts):
    rep.rule("C14.R1", "writes under the lock: every write to shared state (manager lists, shared counters) and every test "
             "of shared state in a function that also writes it lies inside a `with <lock>` region (helpers inlined)",
             floor=3)
    called_inside = {c.func.attr for g in sf.cls.methods.values() if g.self_name is not None for c in calls_in(g.node)
                     if isinstance(c.func, ast.Attribute) and isinstance(c.func.value, ast.Name) and c.func.value.id == g.self_name}
    for name, f in sf.cls.methods.items():
        if name == "__init__" or f.self_name is None:
            continue
        if name.startswith("_") and not name.startswith("__") and name in called_inside:
            continue        # a private helper: analysed where it is called (inlined), with the caller's lock state
        client = _LockRegions(sf)
        it = Interp(prog, client)
        it.run(f, {0}, sf.cls)
        if client.sites == 0:
            continue
        rep.fn(f)
        rep.count("shared_write_sites", client.sites)
        bad = sorted(set(client.writes_outside))
        cta = sorted({t for t in client.tests_outside if t[0] in client.writes})
        if bad:
            fld, ln, where = bad[0]
            rep.viol("C14.R1", f, "writes-locked", f"self.{fld} is written at line {ln} ({where}) outside the `with self.{sf.lock}` region",
                     scenario="two writer processes update the shared index/counters concurrently: a lost counter update "
                              "makes len() and is_contiguous() wrong", line=ln)
        elif cta:
            fld, ln, where = cta[0]
            rep.viol("C14.R1", f, "writes-locked", f"self.{fld} is tested at line {ln} ({where}) outside the lock in a function "
                     f"that also writes it (check-then-act)",
                     scenario="two writers both see the id as free and both store: the duplicate is not rejected", line=ln)
        else:
            rep.ok("C14.R1", f, "writes-locked", f"{client.sites} shared-state write(s), all inside the lock region")


# ---------------------------------------------------------------------------------------------- R2 / R3 / R6
class _Publish(Client):
    """state = (tell taken before the write?, written, flushed, published, duplicate check: None|'free'|'dup', counter increments)"""

    def __init__(self, sf: StorageFacts, f: Func):
        self.sf, self.f = sf, f
        self.flow = Flow(f.node)
        self.problems: List[Tuple[int, str, str]] = []
        self.gid = f.params[1]
        self.data = f.params[2]

    def should_inline(self, func, call, ctx):
        return func.cls is self.sf.cls and func.name not in ("open", "__len__")

    def _x(self, e, ctx):
        """a local that names a field or a value (`out = self._file`, `entry = (pid, offset)`) reads as its definition"""
        if isinstance(e, ast.Name):
            fl = getattr(ctx.func.node, "_flow", None)
            if fl is None:
                fl = ctx.func.node._flow = Flow(ctx.func.node)
            return fl.expand(e)
        return e

    def classify(self, call, ctx: Ctx):
        sn = ctx.func.self_name
        if isinstance(call.func, ast.Attribute) and dotted(self._x(call.func.value, ctx)) == (sn, self.sf.wfile):
            if call.func.attr in ("tell", "write", "flush", "writelines"):
                return "file:" + call.func.attr
        if src(call.func) == "print":
            f = kwarg(call, "file")
            if f is not None and dotted(self._x(f, ctx)) == (sn, self.sf.wfile):
                return "file:print"
        return None

    def refine(self, test, state, ctx):
        tell, w, fl, pub, dup, cnt = state
        if isinstance(test, ast.Compare) and len(test.ops) == 1 and const_value(test.comparators[0], 0) is None \
                and isinstance(test.left, ast.Subscript) and dotted(test.left.value) == (ctx.func.self_name, self.sf.index) \
                and src(test.left.slice) == self.gid:
            t = (tell, w, fl, pub, "dup", cnt)
            f = (tell, w, fl, pub, "free", cnt)
            if isinstance(test.ops[0], ast.IsNot):
                return (t,), (f,)
            if isinstance(test.ops[0], ast.Is):
                return (f,), (t,)
        return (state,), (state,)

    def _need_free(self, what, node, dup):
        if dup != "free":
            self.problems.append((node.lineno, "R3", f"{what} happens before the duplicate check of the identifier"
                                  if dup is None else f"{what} happens on the path where the identifier is already stored"))

    def event(self, kind, node, state, ctx: Ctx):
        tell, w, fl, pub, dup, cnt = state
        sf = self.sf
        sn = ctx.func.self_name
        if kind == "file:tell":
            return ((tell or not w, w, fl, pub, dup, cnt),) if not w else ((tell, w, fl, pub, dup, cnt),)
        if kind in ("file:print", "file:write", "file:writelines"):
            self._need_free("the data write", node, dup)
            flushed = kind == "file:print" and const_value(kwarg(node, "flush"), False) is True
            uses_data = any(isinstance(n, ast.Name) and n.id == self.data for n in ast.walk(node))
            if kind == "file:write" and len(node.args) == 1 and const_value(node.args[0], None) == "\n":
                # the line terminator written on its own (`write(data); write("\n")`): not the data write, but unflushed content
                return ((tell, w, False, pub, dup, cnt),)
            if not uses_data:
                self.problems.append((node.lineno, "R2", "the write does not write the data parameter"))
            return ((tell, True, flushed, pub, dup, cnt),)
        if kind == "file:flush":
            return ((tell, w, True if w else fl, pub, dup, cnt),)
        if kind == "store" and isinstance(node, ast.Subscript) and dotted(node.value) == (sn, sf.index) \
                and src(node.slice) == self.gid:
            val = assigned_value(node)
            if val is not None:
                val = self._x(val, ctx)
            if val is None or const_value(val, 0) is None:
                return (state,)
            self._need_free("the publication of the index entry", node, dup)
            if not w:
                self.problems.append((node.lineno, "R2", "the index entry is published before the line is written: a reader "
                                      "that finds the entry seeks to an offset with nothing behind it"))
            elif not fl:
                self.problems.append((node.lineno, "R2", "the index entry is published before the written line is flushed"))
            # offset component: a name bound from <file>.tell() taken before the write
            off_ok = False
            if isinstance(val, ast.Tuple) and len(val.elts) == 2:
                o = val.elts[1]
                if isinstance(o, ast.Name):
                    d = self.flow.single_def(o) if ctx.func is self.f else None
                    dv = d.value if d is not None else None
                    hops = 0
                    while isinstance(dv, ast.Name) and hops < 4 and ctx.func is self.f:      # offset = <result of the inlined helper>
                        d2 = self.flow.single_def(dv)
                        dv = d2.value if d2 is not None else None
                        hops += 1
                    if d is not None and isinstance(dv, ast.Call) and isinstance(dv.func, ast.Attribute) \
                            and dv.func.attr == "tell":
                        off_ok = tell
                    elif d is None and ctx.func is not self.f:
                        off_ok = tell
                elif isinstance(o, ast.Call) and isinstance(o.func, ast.Attribute) and o.func.attr == "tell":
                    off_ok = not w  # tell() evaluated at publication time: only right if nothing was written yet
                    if not w:
                        off_ok = True
            if not off_ok and w:
                self.problems.append((node.lineno, "R2", "the published offset is not the tell() value taken before the write"))
            return ((tell, w, fl, True, dup, cnt),)
        if kind == "aug" and dotted(node.target) == (sn, sf.count, "value"):
            self._need_free("the counter update", node, dup)
            if not (isinstance(node.op, ast.Add) and const_value(node.value) == 1):
                self.problems.append((node.lineno, "R6", f"stored counter updated by `{src(node)}` instead of += 1"))
            return ((tell, w, fl, pub, dup, min(2, cnt + 1)),)
        if kind == "aug" and dotted(node.target) == (sn, sf.cursor, "value"):
            self._need_free("the contiguity cursor update", node, dup)
            if not (isinstance(node.op, ast.Add) and const_value(node.value) == 1):
                self.problems.append((node.lineno, "R6", f"contiguity cursor updated by `{src(node)}`: it may only advance by 1"))
        if kind == "store" and isinstance(node, ast.Attribute) and dotted(node) in ((sn, sf.cursor, "value"), (sn, sf.count, "value")):
            # `n = self.<counter>.value + 1; self.<counter>.value = n` is the increment written the long way
            val = assigned_value(node)
            val = self._x(val, ctx) if val is not None else None
            is_inc = isinstance(val, ast.BinOp) and isinstance(val.op, ast.Add) and \
                ((dotted(val.left) == dotted(node) and const_value(val.right) == 1) or (dotted(val.right) == dotted(node) and const_value(val.left) == 1))
            if is_inc and dotted(node) == (sn, sf.count, "value"):
                self._need_free("the counter update", node, dup)
                return ((tell, w, fl, pub, dup, min(2, cnt + 1)),)
            if is_inc:
                self._need_free("the contiguity cursor update", node, dup)
                return (state,)
            if val is not None and const_value(val, "x") != "x":
                self.problems.append((node.lineno, "R6", f"`{src(getattr(node, '_parent', node))}` overwrites a shared counter with a constant in the store path"))
            else:
                # a computed value (e.g. the position a local search arrived at): whether it equals the stepwise advance is a
                # value-level question
                self.problems.append((node.lineno, "R6?", f"`{src(getattr(node, '_parent', node))}` assigns a computed value to a shared counter"))
        if kind == "raise" and dup == "dup":
            x = node.exc.func if isinstance(node.exc, ast.Call) else node.exc
            if x is None or src(x) != "ValueError":
                self.problems.append((node.lineno, "R3", f"storing twice raises {src(x) if x is not None else 'nothing'} instead of ValueError"))
        return (state,)


def r2_r3_r6(prog, rep: Report, sf: StorageFacts):
    rep.rule("C14.R2", "write, flush, then publish: in __setitem__, on every path, the offset is taken by tell() before the "
             "write, the data line is written and flushed, and only then the index entry is published with that offset", floor=1)
    rep.rule("C14.R3", "duplicate check first: the `index[id] is not None -> raise ValueError` test dominates the "
             "publication, both counter updates and the data write", floor=1)
    rep.rule("C14.R6", "counters: each successful store increments the stored counter exactly once; the contiguity cursor "
             "only advances by one, while the entry at the cursor is not None", floor=2)
    f = sf.setitem
    rep.fn(f)
    client = _Publish(sf, f)
    it = Interp(prog, client)
    ex = it.run(f, {(False, False, False, False, None, 0)}, sf.cls)
    rep.count("abstract_states", len(it.states_seen))
    finals = ex.normal | ex.ret
    if it.unrecognised:
        rep.unrec("C14.R2", f, "publish", "; ".join(it.unrecognised))
        return
    probs = sorted(set(client.problems))
    not_pub = [s for s in finals if not s[3]]
    if not_pub:
        probs.append((f.node.lineno, "R2", "a normal exit of __setitem__ publishes no index entry"))
    not_written = [s for s in finals if not s[1]]
    if not_written:
        probs.append((f.node.lineno, "R2", "a normal exit of __setitem__ writes no data"))
    cnts = {s[5] for s in finals}
    if cnts != {1}:
        probs.append((f.node.lineno, "R6", f"successful store paths increment the stored counter {sorted(cnts)} times"))
    for rule, role, scen in (("C14.R2", "publish-order", "a reader running between publication and write gets '' (or a partial "
                                                         "line) for an id that len()/the index already report as stored"),
                             ("C14.R3", "duplicate-check", "s[3]='a'; s[3]='b' must raise ValueError and change nothing: a late "
                                                           "check leaves a second line, a moved counter or a replaced entry behind"),
                             ("C14.R6", "stored-counter", "len(storage) differs from the number of stored ids")):
        mine = [p for p in probs if p[1] == rule[-2:]]
        maybe = [p for p in probs if p[1] == rule[-2:] + "?"]
        if not mine and maybe:
            rep.unrec(rule, f, role, "; ".join(m for _, _, m in maybe), maybe[0][0])
            continue
        rep.check(rule, f, role, not mine, "holds on every path of __setitem__ (helpers inlined)",
                  "; ".join(m for _, _, m in mine), scenario=scen, line=mine[0][0] if mine else None)
    # cursor advance loop guarded by "entry at cursor is not None"
    fv = prog.method_view(sf.cls, "__setitem__")      # private helpers inlined (sa/inline.py)
    loops = [n for n in walk_own(fv.node) if isinstance(n, ast.While)]
    good = False
    for lp in loops:
        advances = any(isinstance(s, ast.AugAssign) and dotted(s.target) == (f.self_name, sf.cursor, "value") for s in lp.body)
        if not advances:
            continue
        for sub in ast.walk(lp.test):
            if isinstance(sub, ast.Compare) and len(sub.ops) == 1 and isinstance(sub.ops[0], ast.IsNot) \
                    and const_value(sub.comparators[0], 0) is None and isinstance(sub.left, ast.Subscript) \
                    and dotted(sub.left.value) == (f.self_name, sf.index) \
                    and dotted(sub.left.slice) == (f.self_name, sf.cursor, "value"):
                good = True
    writes_cursor = any(isinstance(n, (ast.Assign, ast.AugAssign)) and any(dotted(t) == (fv.self_name, sf.cursor, "value")
                                                                      for t in (n.targets if isinstance(n, ast.Assign) else [n.target]))
                        for n in walk_own(fv.node))
    guarded_scan = any(isinstance(sub, ast.Compare) and len(sub.ops) == 1 and isinstance(sub.ops[0], (ast.IsNot, ast.Is))
                       and const_value(sub.comparators[0], 0) is None and isinstance(sub.left, ast.Subscript)
                       and dotted(sub.left.value) == (fv.self_name, sf.index) for lp in loops for sub in ast.walk(lp.test))
    if not good and writes_cursor and guarded_scan:
        # the cursor is written, and some loop scans the index for the first empty entry, but not in the recognised form (the
        # scan may run on a local that is published once at the end)
        rep.unrec("C14.R6", f, "cursor-advance", "the contiguity cursor is advanced by a scan over the index that is not the recognised "
                  "`while index[cursor] is not None: cursor += 1`")
    else:
        rep.check("C14.R6", f, "cursor-advance", good, "the cursor advances only while index[cursor] is not None",
                  "no loop advancing the contiguity cursor under the guard `index[cursor] is not None`",
                  scenario="ids stored as 1, 0: is_contiguous() stays False (cursor stuck at 1) or runs past a gap")


# ---------------------------------------------------------------------------------------------- R4
def r4_iter(prog, rep: Report, sf: StorageFacts):
    rep.rule("C14.R4", "iteration ranges over identifiers: the values used to subscript the storage in __iter__ range over "
             "the identifier space (len of the index), not over the count of stored items; gaps (IndexError) are skipped", floor=2)
    f = sf.iter
    rep.fn(f)
    flow = Flow(f.node)
    subs = [n for n in walk_own(f.node) if isinstance(n, ast.Subscript) and isinstance(n.ctx, ast.Load)
            and isinstance(n.value, ast.Name) and n.value.id == f.self_name]
    if not subs:
        rep.unrec("C14.R4", f, "range", "__iter__ does not subscript the storage")
        return
    for s in subs:
        if not isinstance(s.slice, ast.Name):
            rep.unrec("C14.R4", f, "range", f"identifier expression {src(s.slice)} not a loop variable")
            continue
        defs = flow.defs_of(s.slice)
        ok, why = True, ""
        unknown = ""
        from ..util import expand_all
        for d in defs:
            if d.kind != "for" or not isinstance(d.value, ast.expr):
                unknown = f"the identifier `{src(s.slice)}` is not a loop variable (origin: {d.kind}): what it ranges over is not read"
                continue
            it = d.value
            text = src(expand_all(it, flow))                 # index_size = len(self._index); for i in range(index_size)
            over_index = f"{f.self_name}.{sf.index}" in text
            over_count = f"len({f.self_name})" in text or f"{f.self_name}.{sf.count}" in text
            if over_count:
                ok, why = False, f"identifiers range over `{text}`"
            elif not over_index:
                unknown = f"identifiers range over `{text}`: neither the length of the index nor the number of stored items"
        if ok and unknown:
            rep.unrec("C14.R4", f, "range", unknown, s.lineno)
        else:
          rep.check("C14.R4", f, "range", ok, f"identifiers range over the index ({src(next(iter(defs)).value) if defs else '?'})",
                    f"{why}: with gaps the highest identifiers are >= the number of stored items and are never yielded",
                    scenario="ids {0, 5} stored: iteration yields only the text of id 0", line=s.lineno)
        # gaps skipped: the subscript sits in a try with an IndexError handler that does not re-raise
        tr = None
        p = getattr(s, "_parent", None)
        while p is not None and not isinstance(p, ast.FunctionDef):
            if isinstance(p, ast.Try):
                tr = p
                break
            p = getattr(p, "_parent", None)
        hs = [h for h in (tr.handlers if tr else []) if h.type is not None and src(h.type) == "IndexError"]
        skip = bool(hs) and not any(isinstance(x, (ast.Raise, ast.Break, ast.Return)) for x in ast.walk(hs[0]))
        rep.check("C14.R4", f, "gaps-skipped", skip, "IndexError of a gap is caught and iteration continues",
                  "a gap (IndexError) ends or aborts the iteration instead of being skipped",
                  scenario="ids {0, 2}: iteration must yield both texts", line=s.lineno)


# ---------------------------------------------------------------------------------------------- R5
def r5_reset(prog, rep: Report, sf: StorageFacts):
    rep.rule("C14.R5", "reset agreement: flush() restores every field that is mutated outside __init__ to its initial value "
             "(exempt: fields that close() already resets, by the documented precondition 'closed in all processes') and "
             "removes every writer file", floor=5)
    f = sf.flush
    rep.fn(f)
    sn = f.self_name
    mutated: Set[str] = set()
    for name, g in sf.cls.methods.items():
        if name in ("__init__", "flush") or g.self_name is None:
            continue
        for n in walk_own(g.node):
            tg = n.targets if isinstance(n, (ast.Assign, ast.Delete)) else [n.target] if isinstance(n, ast.AugAssign) else []
            for t in tg:
                for el in (t.elts if isinstance(t, ast.Tuple) else [t]):
                    base = el.value if isinstance(el, ast.Subscript) else el
                    d = dotted(base)
                    if d and d[0] == g.self_name and len(d) >= 2 and d[1] in sf.init_values:
                        mutated.add(d[1])
            if isinstance(n, ast.Call) and isinstance(n.func, ast.Attribute) and n.func.attr in MUTATING:
                d = dotted(n.func.value)
                if d and d[0] == g.self_name and len(d) == 2 and d[1] in sf.init_values:
                    mutated.add(d[1])
    close = sf.cls.methods.get("close")
    closed_fields: Set[str] = set()
    if close is not None:
        for n in walk_own(close.node):
            if isinstance(n, ast.Assign):
                for t in n.targets:
                    d = dotted(t)
                    if d and len(d) == 2 and d[0] == close.self_name:
                        closed_fields.add(d[1])
    resets: Dict[str, ast.expr] = {}
    for n in walk_own(f.node):
        if isinstance(n, ast.Assign) and len(n.targets) == 1:
            t = n.targets[0]
            if isinstance(t, ast.Subscript) and isinstance(t.slice, ast.Slice) and t.slice.lower is None and t.slice.upper is None:
                d = dotted(t.value)
                if d and len(d) == 2 and d[0] == sn:
                    resets[d[1]] = n.value
            else:
                d = dotted(t)
                if d and d[0] == sn and len(d) == 2:
                    resets[d[1]] = n.value
                elif d and d[0] == sn and len(d) == 3 and d[2] == "value":
                    resets[d[1]] = n.value
    # `del self.x[:]` and `self.x.clear()` empty the list in place: the same reset as `self.x[:] = []`
    for n in walk_own(f.node):
        if isinstance(n, ast.Delete):
            for t in n.targets:
                if isinstance(t, ast.Subscript) and isinstance(t.slice, ast.Slice) and t.slice.lower is None and t.slice.upper is None \
                        and t.slice.step is None:
                    d = dotted(t.value)
                    if d and len(d) == 2 and d[0] == sn:
                        resets.setdefault(d[1], ast.copy_location(ast.List(elts=[], ctx=ast.Load()), n))
        if isinstance(n, ast.Call) and isinstance(n.func, ast.Attribute) and n.func.attr == "clear" and not n.args:
            d = dotted(n.func.value)
            if d and len(d) == 2 and d[0] == sn:
                resets.setdefault(d[1], ast.copy_location(ast.List(elts=[], ctx=ast.Load()), n))
    scen = "with storage: ...store...; close(); flush(); storage[0] = 'x' must work like on a new storage"
    for fld in sorted(mutated):
        if fld == sf.lock:
            continue
        if fld in closed_fields:
            rep.ok("C14.R5", f, f"reset:{fld}", "exempt: reset by close(), which the documented precondition requires",
                   nontrivial=False)
            continue
        if fld not in resets:
            rep.viol("C14.R5", f, f"reset:{fld}", f"flush() does not restore self.{fld} (initialised `{src(sf.init_values[fld])}`, "
                     f"mutated elsewhere)", scenario=scen + f" - the stale self.{fld} makes the next store fail (IndexError) "
                                                         "or report wrong len()/is_contiguous()")
            continue
        init = sf.init_values[fld]
        val = resets[fld]
        if fld in sf.shared_lists:
            good = isinstance(val, ast.List) and not val.elts
        elif fld in sf.shared_values:
            init_arg = init.args[1] if isinstance(init, ast.Call) and len(init.args) > 1 else None
            good = init_arg is not None and const_value(val, "x") == const_value(init_arg, "y")
            if not good and init_arg is not None and not isinstance(init_arg, ast.Constant):
                # a value derived from another field (`Value('q', len(self._index))`): the reset must be that expression over the
                # *reset* value of the other field
                dep = None
                if isinstance(init_arg, ast.Call) and src(init_arg.func) == "len" and len(init_arg.args) == 1:
                    dd = dotted(init_arg.args[0])
                    if dd and len(dd) == 2 and dd[0] == sn and dd[1] in resets and isinstance(resets[dd[1]], ast.List):
                        dep = len(resets[dd[1]].elts)
                if dep is not None:
                    good = const_value(val, "x") == dep
                else:
                    rep.unrec("C14.R5", f, f"reset:{fld}", f"self.{fld} is initialised from `{src(init_arg)}`: what it must be reset to is "
                              "not a constant this rule can read")
                    continue
        else:
            good = ast.dump(val) == ast.dump(init)
        rep.check("C14.R5", f, f"reset:{fld}", good, f"self.{fld} reset to its initial value",
                  f"flush() resets self.{fld} to `{src(val)}`, initial value is `{src(init)}`", scenario=scen)
    # files removed: loop over the writer paths with os.remove
    paths = [l for l in sf.shared_lists if l != sf.index]
    ok = False
    fflow = Flow(f.node)

    def walked(e):
        """the container a loop walks, through a named snapshot / copy (`ps = list(self._paths); for p in ps`)"""
        e = fflow.expand(e) if isinstance(e, ast.Name) else e
        while True:
            if isinstance(e, ast.Call) and src(e.func) in ("list", "tuple", "sorted") and len(e.args) == 1:
                e = fflow.expand(e.args[0]) if isinstance(e.args[0], ast.Name) else e.args[0]
            elif isinstance(e, ast.Subscript) and isinstance(e.slice, ast.Slice) and e.slice.lower is None and e.slice.upper is None \
                    and e.slice.step is None:
                e = e.value                       # X[:]
            elif isinstance(e, ast.Call) and isinstance(e.func, ast.Attribute) and e.func.attr == "copy" and not e.args:
                e = e.func.value
            else:
                break
        return dotted(e)
    for n in walk_own(f.node):
        if isinstance(n, ast.For) and walked(n.iter) and walked(n.iter)[-1] in paths and isinstance(n.target, ast.Name):
            for c in ast.walk(n):
                if isinstance(c, ast.Call) and (ext_name(prog, f, c) in ("os.remove", "os.unlink")) and c.args \
                        and src(c.args[0]) == n.target.id:
                    ok = True
    rep.check("C14.R5", f, "files-removed", ok, "every writer file is removed", "flush() does not remove every writer file",
              scenario="files of a flushed storage stay on disk / are appended to by the next run")


# ---------------------------------------------------------------------------------------------- R7
class _Reader(Client):
    """state = (bounds checked, entry known not None, cursor positioned)"""

    def __init__(self, sf: StorageFacts, f: Func):
        self.sf, self.f = sf, f
        self.gid = f.params[1]
        self.problems: List[Tuple[int, str]] = []
        self.reads = 0
        self.entry_vars: Set[str] = set()
        for n in walk_own(f.node):
            if isinstance(n, ast.Assign) and isinstance(n.targets[0], ast.Name) \
                    and any(isinstance(x, ast.Subscript) and dotted(x.value) == (f.self_name, sf.index) for x in ast.walk(n.value)) \
                    and isinstance(n.value, (ast.Subscript, ast.IfExp)):
                # entry = self.<index>[id]      or      entry = None if <out of range> else self.<index>[id]
                self.entry_vars.add(n.targets[0].id)

    def should_inline(self, func, call, ctx):
        return False

    def refine(self, test, state, ctx):
        b, nn, pos = state
        if isinstance(test, ast.Compare) and len(test.ops) == 1:
            l, r, op = test.left, test.comparators[0], test.ops[0]
            sides = [src(l), src(r)]
            if f"len({self.f.self_name}.{self.sf.index})" in sides and self.gid in sides:
                # len(index) <= id  /  id >= len(index): true branch = out of range
                left_is_len = sides[0].startswith("len(")
                out_when_true = (isinstance(op, ast.LtE) and left_is_len) or (isinstance(op, ast.GtE) and not left_is_len)
                in_when_true = (isinstance(op, ast.Gt) and left_is_len) or (isinstance(op, ast.Lt) and not left_is_len)
                if out_when_true:
                    return ((("oob", nn, pos),), ((True, nn, pos),))
                if in_when_true:
                    return (((True, nn, pos),), (("oob", nn, pos),))
            if const_value(r, 0) is None and isinstance(op, (ast.Is, ast.IsNot)) and \
                    ((isinstance(l, ast.Name) and l.id in self.entry_vars) or
                     (isinstance(l, ast.Subscript) and dotted(l.value) == (self.f.self_name, self.sf.index))):
                none = (b, "none", pos)
                some = (b, True, pos)
                return ((none,), (some,)) if isinstance(op, ast.Is) else ((some,), (none,))
        return (state,), (state,)

    def event(self, kind, node, state, ctx):
        b, nn, pos = state
        sf = self.sf
        if kind == "subscript" and isinstance(node, ast.Subscript) and dotted(node.value) == (self.f.self_name, sf.index):
            if b is not True:
                self.problems.append((node.lineno, "the index is subscripted without a dominating bounds test of the identifier"))
        if kind == "raise" and (b == "oob" or nn == "none"):
            x = node.exc.func if isinstance(node.exc, ast.Call) else node.exc
            if x is None or src(x) != "IndexError":
                self.problems.append((node.lineno, f"a missing identifier raises {src(x) if x is not None else '?'} instead of IndexError"))
        if kind == "call" and isinstance(node, ast.Call) and isinstance(node.func, ast.Attribute):
            if node.func.attr == "seek":
                return ((b, nn, src(node.func.value)),)
            if node.func.attr in ("readline", "read"):
                self.reads += 1
                if nn is not True:
                    self.problems.append((node.lineno, "the file is read on a path where the index entry may be None"))
                if pos != src(node.func.value):
                    self.problems.append((node.lineno, "readline() without a preceding seek to the recorded offset on the same handle"))
        return (state,)


def r7_reader(prog, rep: Report, sf: StorageFacts):
    rep.rule("C14.R7", "reader: __getitem__ raises IndexError for an id beyond the index or with a None entry (both tests "
             "dominate the file access) and seeks the recorded writer's file to the recorded offset before every readline",
             floor=2)
    f = sf.getitem
    rep.fn(f)
    from ..paths import strip_versions, subterms, summaries, show
    gid = ("p", f.params[1])
    INDEX = ("attr", ("self",), sf.index)

    def is_entry(t):
        t = strip_versions(t)
        return isinstance(t, tuple) and t[0] == "sub" and t[1] == INDEX and t[2] == gid

    def is_len_index(t):
        t = strip_versions(t)
        return t == ("call", "len", (INDEX,))
    # three worlds: the id lies beyond the index / its entry is None / its entry is a (writer, offset) pair; the method's
    # private helpers are followed, the arrangement of the tests does not matter
    def assume_for(world):
        def a(term):
            t = term
            neg = False
            while isinstance(t, tuple) and t and t[0] == "not":
                t, neg = t[1], not neg
            r = None
            if isinstance(t, tuple) and t[0] == "cmp":
                op, x, y = t[1], strip_versions(t[2]), strip_versions(t[3])
                if op in ("Is", "IsNot") and y == ("c", None) and is_entry(x):
                    r = (world == "none") if op == "Is" else (world != "none")
                elif (is_len_index(x) and y == gid) or (x == gid and is_len_index(y)):
                    o = {"beyond-eq": 0, "beyond-gt": 1}.get(world, -1)          # sign of id - len
                    if is_len_index(x):
                        o = -o                                                   # the comparison reads len <op> id
                    r = {"Lt": o < 0, "LtE": o <= 0, "Gt": o > 0, "GtE": o >= 0, "Eq": o == 0, "NotEq": o != 0}.get(op)
            if r is None:
                return None
            return r != neg
        return a
    def _assumed(d):
        if any(assume_for(w)(d) is not None for w in ("beyond-eq", "none", "present")):
            return True
        # a comparison of the id with the number of stored texts (`len(self)`, the stored counter): that number says nothing about
        # whether *this* id is stored (ids arrive with gaps and out of order), so both outcomes are possible in every world: a path
        # through such a test is a real path, not one the rule failed to decide
        t = d
        while isinstance(t, tuple) and t[:1] == ("not",):
            t = t[1]
        if isinstance(t, tuple) and t[:1] == ("cmp",) and len(t) == 4:
            sides = [strip_versions(t[2]), strip_versions(t[3])]
            cnt = [("call", "len", (("self",),)), ("mcall", "__len__", ("self",), ()), ("attr", ("attr", ("self",), sf.count), "value")]
            if gid in sides and any(x in cnt for x in sides):
                return True
        return False
    def _hinges(p_) -> bool:
        """the path passes a test *about the id or its index entry* that no world decides (a comparison of the id with a cached
        length, say): its outcome is then not known to be possible in the world at hand.  Tests about anything else (is the file
        open, which writer) do not bear on presence."""
        for d, _ in p_.decisions:
            if _assumed(d):
                continue
            t = d
            while isinstance(t, tuple) and t[:1] == ("not",):
                t = t[1]
            if isinstance(t, tuple) and t[:1] == ("cmp",) and len(t) == 4:
                sides = [strip_versions(t[2]), strip_versions(t[3])]
                if gid in sides or any(is_entry(x) for x in sides):
                    return True
        return False
    verdict = {"guards": [], "offset-roles": []}
    for world in ("beyond-eq", "beyond-gt", "none", "present"):
        ps, un = summaries(prog, f, sf.cls, assume=assume_for(world))
        if un:
            verdict["guards"].append(("unrec", "; ".join(un)))
            continue
        for p_ in ps:
            reads = [e for e in p_.events if e[0] == "call" and e[1] in ("readline", "read", "readlines")]
            seeks = [e for e in p_.events if e[0] == "call" and e[1] == "seek"]
            if world in ("beyond-eq", "beyond-gt", "none"):
                beyond = world != "none"
                hinges = _hinges(p_)
                if reads:
                    verdict["guards"].append(("unrec" if hinges else "viol", "the file is read on a path where " +
                                              ("the id lies beyond the index" if beyond else "the index entry may be None")))
                elif p_.exit == "raise:IndexError":
                    verdict["guards"].append(("ok", ""))
                elif beyond and any(is_entry(t) for e in p_.events for x in e[1:] if isinstance(x, tuple) for t in subterms(x)) or \
                        (beyond and is_entry(p_.value)):
                    continue                                # index[id] was evaluated: that raises IndexError by itself
                else:
                    verdict["guards"].append(("unrec" if p_.decisions and any(not _assumed(d) for d, _ in p_.decisions) else "viol",
                                              f"for an id {'beyond the index' if beyond else 'whose entry is None'} the look-up ends with "
                                              f"{p_.exit} instead of IndexError"))
                continue
            # present
            if p_.exit != "return":
                if p_.exit == "raise:IndexError" and not reads:
                    hinges = _hinges(p_)
                    verdict["guards"].append(("unrec" if hinges else "viol", "IndexError is raised for an id whose entry is present"
                                              + (" (on a path that hinges on a test this rule does not decide)" if hinges else "")))
                continue
            if not reads:
                verdict["guards"].append(("unrec", "a path returns without reading the file"))
                continue
            ok_order = True
            for rd in reads:
                i_rd = p_.events.index(rd)
                same = [sk for sk in seeks if strip_versions(sk[2]) == strip_versions(rd[2]) and p_.events.index(sk) < i_rd]
                if not same:
                    ok_order = False
            verdict["guards"].append(("ok", "") if ok_order else ("viol", "a line is read from a handle that was not positioned by a seek first"))
            roles_ok = True

            def by_writer(h):
                """the handle is selected by the entry's writer component: <cache>[writer], or a file just opened from
                <paths>[writer]"""
                def is_pid(t):
                    return isinstance(t, tuple) and t[:1] == ("sub",) and is_entry(t[1]) and t[2] == ("c", 0)
                if isinstance(h, tuple) and h[0] == "sub" and is_pid(h[2]):
                    return True
                if isinstance(h, tuple) and h[0] == "eff" and h[1] == "open" and h[3] and isinstance(h[3][0], tuple) \
                        and h[3][0][0] == "sub" and is_pid(h[3][0][2]):
                    return True
                return False
            for sk in seeks:
                h, args = strip_versions(sk[2]), sk[3]
                off_ok = len(args) == 1 and strip_versions(args[0])[:1] == ("sub",) and is_entry(strip_versions(args[0])[1]) \
                    and strip_versions(args[0])[2] == ("c", 1)
                pid_ok = by_writer(h)
                if not (off_ok and pid_ok):
                    roles_ok = False
            for rd in reads:
                h = strip_versions(rd[2])
                if not by_writer(h):
                    roles_ok = False
            verdict["offset-roles"].append(("ok", "") if roles_ok and seeks else
                                           ("viol", "the seek does not use the (writer, offset) components of the index entry in their roles"))
    for role, okmsg, scen in (("guards", "bounds and None tests dominate the read; seek before readline",
                               "reading an id that was never stored returns '' / raises TypeError instead of IndexError; or the "
                               "line of another id is returned"),
                              ("offset-roles", "seek(offset) on the handle of the recorded writer",
                               "the reader seeks with the writer id as offset or reads another writer's file: another id's text is returned")):
        vs = verdict[role]
        bad = sorted({m for k, m in vs if k == "viol"})
        un_ = sorted({m for k, m in vs if k == "unrec"})
        if bad:
            rep.viol("C14.R7", f, role, "; ".join(bad), scenario=scen)
        elif un_ or not vs:
            rep.unrec("C14.R7", f, role, "; ".join(un_) or "no path understood")
        else:
            rep.ok("C14.R7", f, role, okmsg)


def r8_reopen_appends(prog, rep: Report, sf: StorageFacts):
    rep.rule("C14.R8", "a writer that re-opens its file appends: in open(), every open() call reached while the writer is already "
             "registered (its process identifier is known) uses mode 'a'; only the first registration may create the file", floor=1)
    f = prog.method_raw(sf.cls, "open")
    rep.fn(f)
    idf = identifier_field(sf)
    if idf is None:
        rep.unrec("C14.R8", f, "reopen-appends", "the writer's identifier field is not recognisable in open()")
        return
    # per world (writer registered already / not yet) the mode every open() call is made with, read off the path summaries: the
    # mode may be chosen in a branch and handed on through a local
    from ..paths import strip_versions, summaries

    def assume_for(registered):
        def a(term):
            t, neg = term, False
            while isinstance(t, tuple) and t and t[0] == "not":
                t, neg = t[1], not neg
            t = strip_versions(t)
            if isinstance(t, tuple) and t[0] == "cmp" and t[1] in ("Is", "IsNot") and t[3] == ("c", None) and t[2][:3] == ("attr", ("self",), idf):
                r = (not registered) if t[1] == "Is" else registered
                return r != neg
            return None
        return a
    modes = {True: [], False: []}
    unrec = []
    for registered in (True, False):
        ps, un = summaries(prog, f, sf.cls, assume=assume_for(registered))
        unrec += un
        for p_ in ps:
            for e in p_.events:
                if e[0] == "call" and e[1] == "open":
                    args = e[3]
                    m = None
                    pos = [a for a in args if not (isinstance(a, tuple) and len(a) == 2 and isinstance(a[0], str) and a[0] not in ("c", "p"))]
                    kw = {a[0]: a[1] for a in args if isinstance(a, tuple) and len(a) == 2 and isinstance(a[0], str) and a[0] not in ("c", "p")}
                    mt = kw.get("mode", pos[1] if len(pos) > 1 else ("c", "r"))
                    m = mt[1] if isinstance(mt, tuple) and mt[0] == "c" else None
                    modes[registered].append((e[4], m))
    if unrec:
        rep.unrec("C14.R8", f, "reopen-appends", "; ".join(unrec))
        return
    if not modes[True] and not modes[False]:
        rep.unrec("C14.R8", f, "reopen-appends", "open() opens no file")
        return
    unknown = [(ln, m) for ln, m in modes[True] if m is None]
    bad = [(ln, m) for ln, m in modes[True] if m is not None and "a" not in m]
    first = modes[False]
    if bad or not first:
        rep.viol("C14.R8", f, "reopen-appends",
                 (f"an open() call reachable for an already registered writer uses mode {[m for _, m in bad]}: re-opening truncates the "
                  f"writer's file while the index still points into it") if bad else "no open() for a writer that is not registered yet",
                 scenario="store ids 0-2, close(), open(), store ids 3-4: id 0 reads 'three', iteration is wrong",
                 line=bad[0][0] if bad else None)
    elif unknown:
        rep.unrec("C14.R8", f, "reopen-appends", "the mode of an open() call reached by a registered writer is not a constant on that path")
    else:
        rep.ok("C14.R8", f, "reopen-appends", f"first registration creates the file ({sorted({m for _, m in first})}), a registered writer "
               "re-opens it in append mode")


def run(prog: Program, rep: Report):
    sf = StorageFacts(prog)
    rep.attempt(lambda: r1_lock(prog, rep, sf))
    rep.attempt(lambda: r2_r3_r6(prog, rep, sf))
    rep.attempt(lambda: r4_iter(prog, rep, sf))
    rep.attempt(lambda: r5_reset(prog, rep, sf))
    rep.attempt(lambda: r7_reader(prog, rep, sf))
    rep.attempt(lambda: r8_reopen_appends(prog, rep, sf))
    rep.attempt(lambda: r9_no_stale_handles(prog, rep, sf))
    rep.attempt(lambda: r10_derived(prog, rep, sf))
    from .ownership import rule_no_class_state
    rep.attempt(lambda: rule_no_class_state(prog, rep, "C14.R11", [sf.cls]))


# ---------------------------------------------------------------------------------------------- R9
class _Stale(Client):
    """state = frozenset of handle fields through which a handle was closed and that still refer to it"""

    def __init__(self, f: Func):
        self.me = f.self_name
        # loop variables ranging over a field of self:  for h in self.F / self.F.values() / enumerate(self.F)
        self.var_field: Dict[str, str] = {}
        for n in walk_own(f.node):
            if isinstance(n, ast.For):
                it = n.iter
                if isinstance(it, ast.Call) and isinstance(it.func, ast.Attribute) and it.func.attr in ("values", "copy"):
                    it = it.func.value
                if isinstance(it, ast.Call) and isinstance(it.func, ast.Name) and it.func.id in ("enumerate", "list", "reversed", "tuple") and it.args:
                    it = it.args[0]
                d = dotted(it)
                if d and len(d) == 2 and d[0] == self.me:
                    for t in ast.walk(n.target):
                        if isinstance(t, ast.Name):
                            self.var_field[t.id] = d[1]
        self.closes = 0

    def should_inline(self, func, call, ctx):
        return False

    def event(self, kind, node, state, ctx):
        if kind == "call" and isinstance(node, ast.Call) and isinstance(node.func, ast.Attribute):
            recv = node.func.value
            if node.func.attr == "close" and not node.args:
                d = dotted(recv)
                if d and len(d) == 2 and d[0] == self.me:
                    self.closes += 1
                    return (state | {d[1]},)
                if isinstance(recv, ast.Name) and recv.id in self.var_field:
                    self.closes += 1
                    return (state | {self.var_field[recv.id]},)
                if isinstance(recv, ast.Subscript):
                    d = dotted(recv.value)
                    if d and len(d) == 2 and d[0] == self.me:
                        self.closes += 1
                        return (state | {d[1]},)
            if node.func.attr == "clear" and not node.args:
                d = dotted(recv)
                if d and len(d) == 2 and d[0] == self.me:
                    return (state - {d[1]},)
        if kind == "store" and isinstance(node, ast.Attribute):
            d = dotted(node)
            if d and len(d) == 2 and d[0] == self.me:
                return (state - {d[1]},)
        return (state,)


def identifier_field(sf: StorageFacts) -> Optional[str]:
    """the writer's identifier: the non-shared field that __setitem__ publishes as the first component of the index entry"""
    f = sf.setitem
    fl = Flow(f.node)
    for n in walk_own(f.node):
        val = fl.expand(n.value) if isinstance(n, ast.Assign) and isinstance(n.value, ast.Name) else getattr(n, "value", None)
        if isinstance(n, ast.Assign) and isinstance(n.targets[0], ast.Subscript) and dotted(n.targets[0].value) == (f.self_name, sf.index) \
                and isinstance(val, ast.Tuple) and val.elts:
            first = fl.expand(val.elts[0]) if isinstance(val.elts[0], ast.Name) else val.elts[0]
            d = dotted(first)
            if d and len(d) == 2 and d[0] == f.self_name and d[1] not in sf.shared_lists + sf.shared_values:
                return d[1]
    return None


def reader_cache_fields(sf: StorageFacts) -> Set[str]:
    """fields holding read handles: containers whose elements close() closes"""
    close = sf.cls.methods.get("close")
    out: Set[str] = set()
    if close is not None:
        out = set(_Stale(close).var_field.values())
    return out


def r10_derived(prog, rep: Report, sf: StorageFacts):
    from .memo import public_entry_points, rule_derived_state
    prim = set(sf.shared_lists) | set(sf.shared_values)
    known = {sf.wfile, identifier_field(sf)} | reader_cache_fields(sf)
    rule_derived_state(prog, rep, "C14.R10", sf.cls, prim, public_entry_points(prog, sf.cls), config={k for k in known if k},
                       what="the index and the counters live in the manager and change in other processes; a process-local copy of "
                            "index entries (a look-up cache in front of the locked read) is derived state")


def r9_no_stale_handles(prog, rep: Report, sf: StorageFacts):
    rep.rule("C14.R9", "no closed handle stays cached: on every path through close(), a field through which a file handle was "
             "closed (directly, or as the container the closed handles come from) is re-assigned or cleared before close() returns; "
             "and no path through close() returns without re-assigning that cache at all (an early exit that only looks at the write file)",
             floor=1)
    f = prog.method(sf.cls, "close")
    rep.fn(f)
    client = _Stale(f)
    it = Interp(prog, client)
    ex = it.run(f, {frozenset()}, sf.cls)
    if it.unrecognised:
        rep.unrec("C14.R9", f, "close", "; ".join(it.unrecognised))
        return
    if client.closes == 0:
        rep.unrec("C14.R9", f, "close", "close() closes no handle held in a field")
        return
    # every way out of close() has dropped the cached read handles: a path that returns without re-assigning the cache field (an early
    # `return` for "no write file open") leaves a reader-only process with handles of files that flush() may since have deleted
    cache_fields = sorted(set(client.var_field.values()))

    class _Dropped(Client):
        def should_inline(self_, func, call, ctx):
            return func.cls is sf.cls and func.name.startswith("_")

        def event(self_, kind, node, state, ctx):
            if kind in ("store", "del") and isinstance(node, ast.Attribute) and ctx.scope.is_self(node.value) and node.attr in cache_fields:
                return (frozenset(state | {node.attr}),)
            if kind == "call" and isinstance(node, ast.Call) and isinstance(node.func, ast.Attribute) and node.func.attr == "clear":
                d_ = dotted(node.func.value)
                if d_ and len(d_) == 2 and d_[1] in cache_fields:
                    return (frozenset(state | {d_[1]}),)
            return (state,)
    if cache_fields:
        it2 = Interp(prog, _Dropped())
        ex2 = it2.run(f, {frozenset()}, sf.cls)
        kept = sorted({c_ for st in (ex2.normal | ex2.ret) for c_ in cache_fields if c_ not in st}) if not it2.unrecognised else []
        rep.check("C14.R9", f, "close:all-paths", not kept, f"every path through close() re-assigns {', '.join('self.' + c_ for c_ in cache_fields)}",
                  f"close() can return without closing and dropping the read handles cached in self.{kept[0] if kept else ''} (an early exit "
                  "that only looks at the write file)",
                  scenario="a process that only reads: close(); another process flush()es and refills the storage; open() and read again: "
                           "the cached handle still refers to the deleted file and returns the old text")
    stale = sorted({x for st in (ex.normal | ex.ret) for x in st})
    rep.check("C14.R9", f, "close", not stale, f"{client.closes} close sites; every closed handle field is reset on every path",
              f"close() can return with self.{stale[0] if stale else ''} still holding closed handles",
              scenario="a reader-only object (no write file open) is closed and used again: every read hits a cached closed handle "
                       "and raises ValueError: I/O operation on closed file")
