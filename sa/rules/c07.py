"""C07 — LFUCache evicts a least frequently used key and keeps the latest stored value (DESIGN.md §6)."""
from __future__ import annotations

import ast
from typing import List, Optional, Set

from ..absint import Client, Ctx, Interp
from ..model import AnalysisError, Func, Program, walk_own
from ..report import Report
from ..resolve import const_value, dotted
from ..util import assigned_value, iter_stores, returns_of, src
from .cachefam import (CACHES_MOD, CacheFacts, membership_polarity, rule_coherence_capacity, rule_invalidation, rule_list_ops, rule_lookup_source, rule_value_stored)


def run(prog: Program, rep: Report):
    cf = CacheFacts(prog, "LFUCache")
    rule_value_stored(prog, rep, cf, "C07.R1")
    rule_invalidation(prog, rep, cf, "C07.R2")
    rule_coherence_capacity(prog, rep, cf, "C07.R3", "C07.R3c")
    helper, count_field = find_increment_helper(prog, cf)
    r4_counts(prog, rep, cf, helper, count_field)
    r5_helper(prog, rep, cf, helper, count_field)
    r6_item_layout(prog, rep, cf, count_field)
    rule_list_ops(prog, rep, cf, "C07.R7")
    rule_lookup_source(prog, rep, cf, "C07.R8")
    from .memo import public_entry_points, rule_derived_state
    rule_derived_state(prog, rep, "C07.R9", cf.cls, {cf.dict_field, cf.list_field}, public_entry_points(prog, cf.cls), config={cf.cap_field},
                       what="a snapshot of the order, a remembered node or a bound method of the list must not survive a store, delete, "
                            "eviction or clear")
    from .ownership import rule_no_class_state
    rule_no_class_state(prog, rep, "C07.R10", [cf.cls, cf.lf.lst])


def find_increment_helper(prog, cf: CacheFacts):
    """the private method that increments a payload field of its node parameter, and that field"""
    for f in cf.cls.methods.values():
        if f.self_name is None or len(f.params) < 2:
            continue
        node = f.params[1]
        for n in walk_own(f.node):
            if isinstance(n, ast.AugAssign) and isinstance(n.op, ast.Add):
                d = dotted(n.target)
                if d and len(d) == 3 and d[0] == node and d[1] == cf.lf.payload:
                    return f, d[2]
    raise AnalysisError("LFUCache: increment helper (node.<payload>.<count> += ...) not found")


class _IncCount(Client):
    """state = (number of increment-helper calls on this path (saturating at 2), key present?)"""

    def __init__(self, cf, helper, key):
        self.cf, self.helper, self.key = cf, helper, key

    def should_inline(self, func, call, ctx):
        return func.cls is self.cf.cls and func is not self.helper

    def classify(self, call, ctx: Ctx):
        if ctx.scope.resolve_call(call) is self.helper:
            return "inc"
        return None

    def refine(self, test, state, ctx):
        n, present = state
        pol = membership_polarity(self.cf, test, self.key, ctx.func)
        if pol is not None:
            yes, no = (n, True), (n, False)
            return ((yes,), (no,)) if pol else ((no,), (yes,))
        return (state,), (state,)

    def event(self, kind, node, state, ctx):
        n, present = state
        if kind == "inc":
            return ((min(2, n + 1), present),)
        return (state,)


class _InitCount(Client):
    """state = (key present?, count given to the node on this path: None | 1 | 'other')"""

    def __init__(self, cf, key, count_field, item_name, fields):
        self.cf, self.key, self.cnt, self.item, self.fields = cf, key, count_field, item_name, fields
        self._flows = {}

    def should_inline(self, func, call, ctx):
        return False

    def refine(self, test, state, ctx):
        present, c = state
        pol = membership_polarity(self.cf, test, self.key, ctx.func)
        if pol is not None:
            yes, no = (True, c), (False, c)
            return ((yes,), (no,)) if pol else ((no,), (yes,))
        return (state,), (state,)

    def event(self, kind, node, state, ctx):
        present, c = state
        if kind == "store" and isinstance(node, ast.Attribute) and node.attr == self.cnt:
            from ..flow import Flow
            from ..util import path_of
            fl = self._flows.setdefault(id(ctx.func.node), Flow(ctx.func.node))
            d = path_of(node, fl, keep=(ctx.func.self_name,))       # `item = node.data; item.meta = 1` is `node.data.meta = 1`
            if d and len(d) >= 3 and d[-2] == self.cf.lf.payload:
                v = const_value(assigned_value(node), "?") if assigned_value(node) is not None else "?"
                return ((present, 1 if v == 1 and not isinstance(v, bool) else "other"),)
        if kind in ("construct", "call") and isinstance(node, ast.Call) and self.item and src(node.func) == self.item:
            v = "?"
            if self.cnt in self.fields and len(node.args) > self.fields.index(self.cnt):
                v = const_value(node.args[self.fields.index(self.cnt)], "?")
            for kw in node.keywords:
                if kw.arg == self.cnt:
                    v = const_value(kw.value, "?")
            return ((present, 1 if v == 1 and not isinstance(v, bool) else "other"),)
        return (state,)


class _HelperPaths(Client):
    """state = number of increments of the count on this path (saturating at 2)"""

    def __init__(self, node_param, payload, cnt):
        self.n, self.payload, self.cnt = node_param, payload, cnt

    def should_inline(self, func, call, ctx):
        return False

    def event(self, kind, node, state, ctx):
        if kind == "aug" and dotted(node.target) == (self.n, self.payload, self.cnt) and isinstance(node.op, ast.Add):
            return (min(2, state + 1),)
        if kind == "store" and isinstance(node, ast.Attribute) and dotted(node) == (self.n, self.payload, self.cnt):
            return (min(2, state + 1),)
        return (state,)


def r4_counts(prog, rep: Report, cf: CacheFacts, helper: Func, count_field: str):
    rep.rule("C07.R4", "count discipline: every use path (lookup, store to a present key) calls the increment helper "
             "exactly once; insertion paths set the count to the constant 1; new nodes enter at the victim end; "
             "iteration walks forward from the victim end (smallest count first)", floor=5)
    lf = cf.lf
    g = cf.getitem
    rep.fn(g, cf.setitem, helper)
    it = Interp(prog, _IncCount(cf, helper, g.params[1]))
    ex = it.run(g, {(0, None)}, cf.cls)
    counts = {s[0] for s in ex.normal | ex.ret}
    rep.check("C07.R4", g, "lookup-increments-once", counts == {1},
              "every successful lookup increments the count once",
              f"lookup paths call the increment helper {sorted(counts)} times",
              scenario="use counts drift from the reference: the victim of the next eviction is not a least "
                       "frequently used key")
    f = cf.setitem
    it = Interp(prog, _IncCount(cf, helper, f.params[1]))
    ex = it.run(f, {(0, None)}, cf.cls)
    finals = ex.normal | ex.ret
    pres = {s[0] for s in finals if s[1] is True}
    absent = {s[0] for s in finals if s[1] is False}
    if not pres or not absent:
        rep.unrec("C07.R4", f, "store-increments", "no membership test on the key parameter found in __setitem__")
    else:
        rep.check("C07.R4", f, "store-present-increments-once", pres == {1},
                  "store to a present key increments once", f"store to a present key increments {sorted(pres)} times",
                  scenario="c[k]=v on a present key must count as one use")
        rep.check("C07.R4", f, "store-new-no-increment", absent == {0},
                  "insertion does not call the increment helper (count set to 1 directly)",
                  f"insertion path calls the increment helper {sorted(absent)} times on top of the initial count",
                  scenario="a new key starts with count 2 and is not the next victim although it is the least used")
    # insertion paths set the count of the node kept under the key to the constant 1 (all-paths); from here on the statements
    # of __setitem__ are read with the cache's private helpers inlined (sa/inline.py)
    f = cf.setitem_v
    item_cls = prog.maybe_cls("Item", CACHES_MOD)
    fields = _dataclass_fields(item_cls) if item_cls is not None else []
    client = _InitCount(cf, f.params[1], count_field, item_cls.name if item_cls else None, fields)
    it = Interp(prog, client)
    ex = it.run(f, {(None, None)}, cf.cls)
    finals = ex.normal | ex.ret
    absent_counts = sorted({str(s[1]) for s in finals if s[0] is False})
    if not absent_counts:
        rep.unrec("C07.R4", f, "initial-count", "no insertion path found")
    else:
        rep.check("C07.R4", f, "initial-count", absent_counts == ["1"], "every insertion path (new node, reused node) sets the count to 1",
                  f"insertion paths leave the count of the stored node as {absent_counts} (None = never set: the reused node keeps the "
                  f"evicted key's count)",
                  scenario="cache(2): bring A and B to count 3, store X (evicts one, reuses its node): X must start with count 1, "
                           "otherwise it outlives keys that were used more often")
    # insertion end == victim end == head (forward iteration yields smallest count first)
    victims, inserts = [], []
    for n in walk_own(f.node):
        if isinstance(n, ast.Assign) and len(n.targets) == 1:
            d = dotted(n.value)
            if d and len(d) == 3 and d[:2] == (f.self_name, cf.list_field) and d[2] in lf.ends:
                victims.append(d[2])
        if isinstance(n, ast.Call) and isinstance(n.func, ast.Attribute) and cf.is_list(n.func.value, f) \
                and cf.list_delta.get(n.func.attr) == 1:
            inserts.append(cf.list_target_end.get(n.func.attr))
    if len(victims) != 1 or len(inserts) != 1 or inserts[0] is None:
        rep.unrec("C07.R4", f, "victim-end", f"victim selections {victims}, insert ends {inserts}")
    else:
        rep.check("C07.R4", f, "victim-end", victims[0] == inserts[0] == lf.head,
                  f"victim and new nodes at the {lf.head} end (smallest counts)",
                  f"victim taken from {victims[0]}, new nodes inserted at {inserts[0]}, forward iteration starts at "
                  f"{lf.head}: the evicted key is not one with the smallest count",
                  scenario="cache(2): c[1]; c[1]; c[2]=..; c[3]=.. must evict key 2 (count 1), not key 1 (count 3)")


def _dataclass_fields(cls) -> List[str]:
    out = []
    for st in cls.node.body:
        if isinstance(st, ast.AnnAssign) and isinstance(st.target, ast.Name):
            out.append(st.target.id)
    return out


def r5_helper(prog, rep: Report, cf: CacheFacts, helper: Func, count_field: str):
    rep.rule("C07.R5", "increment helper: count incremented before the scan; the scan walks the next link only while "
             "the next node's count is smaller than the node's; the node is moved after the last such node, guarded by "
             "an identity test", floor=3)
    lf = cf.lf
    f = helper
    rep.fn(f)
    node = f.params[1]
    body = f.node.body
    aug_i = loop_i = None
    loop = None
    for i, st in enumerate(body):
        if isinstance(st, ast.AugAssign) and dotted(st.target) == (node, lf.payload, count_field) and aug_i is None:
            aug_i = i
        if isinstance(st, ast.While) and loop_i is None:
            loop_i, loop = i, st
    hp = Interp(prog, _HelperPaths(node, lf.payload, count_field))
    hex_ = hp.run(f, {0}, cf.cls)
    incs = sorted({s for s in hex_.normal | hex_.ret})
    rep.check("C07.R5", f, "increments-on-every-path", incs == [1], "every path through the helper increments the count exactly once",
              f"paths through the increment helper change the count {incs} times (an early exit before the increment loses a use)",
              scenario="capacity 2: A used 4 times while it is the last node of the list, B used 3 times; storing C must evict B, "
                       "but A's uses were not counted and A is evicted")
    rep.check("C07.R5", f, "increment-before-scan", aug_i is not None and loop_i is not None and aug_i < loop_i,
              "count incremented before the position scan",
              "the count is not incremented before the scan: the node is positioned by its old count",
              scenario="after a use the node stays in front of nodes with a smaller count; the victim is not minimal")
    if loop is None:
        rep.unrec("C07.R5", f, "scan", "no scan loop found")
        return
    # scan condition, evaluated over the three orderings of (count of the next node, count of the node) with the next node
    # present: the scan must go on exactly while next.count < node.count (or <=: ties are left open by the property)
    from ..flow import Flow
    from ..orderings import NotAFormula, eval_order, weak_orderings
    flow = Flow(f.node)
    cursor = None
    for sub in ast.walk(loop.test):
        d_ = dotted(sub) if isinstance(sub, ast.Attribute) else None
        if d_ and len(d_) == 4 and d_[1] == lf.next_link and d_[-2:] == (lf.payload, count_field) and d_[0] != node:
            cursor = d_[0]

    def _ev(e, env):
        if isinstance(e, ast.BoolOp):
            vals = [_ev(v, env) for v in e.values]
            return all(vals) if isinstance(e.op, ast.And) else any(vals)
        if isinstance(e, ast.UnaryOp) and isinstance(e.op, ast.Not):
            return not _ev(e.operand, env)
        if isinstance(e, ast.Compare) and len(e.ops) == 1 and isinstance(e.ops[0], (ast.Is, ast.IsNot)) \
                and isinstance(e.comparators[0], ast.Constant) and e.comparators[0].value is None:
            d2 = dotted(e.left)
            if d2 == (cursor, lf.next_link):
                return isinstance(e.ops[0], ast.IsNot)        # the next node exists
            raise NotAFormula(src(e))

        def term(x):
            d3 = dotted(x)
            if d3 == (cursor, lf.next_link, lf.payload, count_field):
                return env["next"]
            if d3 == (node, lf.payload, count_field):
                return env["node"]
            return None
        return eval_order(e, env, term)
    if cursor is None:
        rep.unrec("C07.R5", f, "scan", f"scan condition not recognised: {src(loop.test)}")
    else:
        try:
            W = weak_orderings(["next", "node"])
            got = {(w["next"] < w["node"], w["next"] == w["node"]): _ev(loop.test, w) for w in W}
            strict = got.get((True, False)) is True and got.get((False, True)) is False and got.get((False, False)) is False
            loose = got.get((True, False)) is True and got.get((False, True)) is True and got.get((False, False)) is False
            rep.check("C07.R5", f, "scan", strict or loose, f"scan continues while next.count < / <= node.count ({src(loop.test)})",
                      f"scan condition `{src(loop.test)}` does not walk past exactly the nodes with a smaller count",
                      scenario="counts 1,2,3 in the list; using the count-1 node twice must place it behind the 2; a wrong "
                               "comparison leaves the list unsorted and a non-minimal key is evicted", line=loop.lineno)
        except NotAFormula as e:
            rep.unrec("C07.R5", f, "scan", f"scan condition not recognised: {src(loop.test)} ({e})")
    # step: cursor = cursor.next (possibly through a local that names the next node)
    steps, others = [], []
    for st in loop.body:
        if isinstance(st, ast.Assign) and len(st.targets) == 1 and isinstance(st.targets[0], ast.Name):
            tgt = st.targets[0].id
            ex_ = flow.expand(st.value) if isinstance(st.value, ast.Name) else st.value
            if tgt == cursor and dotted(ex_) == (cursor, lf.next_link):
                steps.append(st)
                continue
            if tgt != cursor and dotted(st.value) and dotted(st.value)[0] in (cursor, node):
                continue            # a read-only alias (following = cursor.next)
        others.append(st)
    wrong_way = [st for st in loop.body if isinstance(st, ast.Assign) and isinstance(st.targets[0], ast.Name)
                 and st.targets[0].id == cursor and dotted(st.value) == (cursor, lf.prev_link)]
    if wrong_way:
        rep.viol("C07.R5", f, "scan-step", f"the scan steps along .{lf.prev_link}: it walks towards the head",
                 scenario="scan walks the wrong direction", line=loop.lineno)
    elif len(steps) == 1 and not others:
        rep.ok("C07.R5", f, "scan-step", "scan advances along the next link")
    else:
        rep.unrec("C07.R5", f, "scan-step", f"scan body is not a single step along .{lf.next_link} (plus read-only aliases)", line=loop.lineno)
    # move: guarded by identity, move_after(node, cursor)
    moved = None
    for st in body[(loop_i or 0) + 1:]:
        for call in ast.walk(st):
            if isinstance(call, ast.Call) and isinstance(call.func, ast.Attribute) and cf.is_list(call.func.value, f):
                args = [a.id if isinstance(a, ast.Name) else None for a in call.args]
                guard = st.test if isinstance(st, ast.If) else None
                ident = guard is not None and isinstance(guard, ast.Compare) and isinstance(guard.ops[0], (ast.IsNot, ast.Is)) \
                    and {src(guard.left), src(guard.comparators[0])} == {node, cursor or "?"}
                if not ident:
                    # guard clause form:  if cursor is node: return   ...   move(node, cursor)
                    for g_ in body[(loop_i or 0) + 1:body.index(st)]:
                        if isinstance(g_, ast.If) and isinstance(g_.test, ast.Compare) and isinstance(g_.test.ops[0], ast.Is) \
                                and {src(g_.test.left), src(g_.test.comparators[0])} == {node, cursor or "?"} \
                                and g_.body and isinstance(g_.body[-1], ast.Return) and not g_.orelse:
                            ident = True
                tgt = prog.resolve(lf.lst, call.func.attr)
                good_args = tgt is not None and len(tgt.params) == 3 and args == [node, cursor]
                moved = (ident, good_args, call)
    if moved is None:
        rep.unrec("C07.R5", f, "move", "no list move after the scan")
    else:
        ident, good_args, call = moved
        rep.check("C07.R5", f, "move", ident and good_args,
                  f"node moved after the scan cursor under an identity guard: {src(call)}",
                  ("the move is not guarded by an identity test of node vs. cursor" if not ident else
                   f"move arguments are not (node, cursor): {src(call)}"),
                  scenario="moving a node after itself corrupts the links; moving the cursor after the node unsorts the list",
                  line=call.lineno)


def r6_item_layout(prog, rep: Report, cf: CacheFacts, count_field: str):
    rep.rule("C07.R6", "payload layout agreement: the Item constructed for a new key receives (key, value, count) in its "
             "field order; lookup returns the value field; iteration and eviction use the key field", floor=3)
    item_cls = prog.maybe_cls("Item", CACHES_MOD)
    f = cf.setitem_v        # statements of __setitem__ with the cache's private helpers inlined
    from ..flow import Flow
    from ..util import path_of
    sflow = Flow(f.node)
    if item_cls is None:
        rep.unrec("C07.R6", f, "writer", "Item class not found")
        return
    fields = _dataclass_fields(item_cls)
    k, v = f.params[1], f.params[2]
    kf = vf = None
    for n in walk_own(f.node):
        if isinstance(n, ast.Call) and src(n.func) == item_cls.name:
            names = [a.id if isinstance(a, ast.Name) else None for a in n.args]
            for kw in n.keywords:
                if isinstance(kw.value, ast.Name):
                    if kw.value.id == k: kf = kw.arg
                    if kw.value.id == v: vf = kw.arg
            if k in names and names.index(k) < len(fields): kf = fields[names.index(k)]
            if v in names and names.index(v) < len(fields): vf = fields[names.index(v)]
    if kf is None or vf is None:
        rep.unrec("C07.R6", f, "writer", "Item(...) construction with key and value parameters not found")
        return
    rep.fn(f, cf.getitem, cf.iter)
    rep.ok("C07.R6", f, "writer", f"Item fields: key -> .{kf}, value -> .{vf}, count -> .{count_field}")
    # reuse path writes the same fields
    reuse = {}
    for t, val, _st in iter_stores(f.node):
        if isinstance(val, ast.Name):
            d = path_of(t, sflow, keep=(f.self_name,))     # `item = node.data; item.key = k` is `node.data.key = k`
            if d and len(d) >= 3 and d[-2] == cf.lf.payload:
                reuse[val.id] = d[-1]
    rep.check("C07.R6", f, "reuse-writes-same-fields", reuse.get(k) == kf and reuse.get(v) == vf,
              "the reuse path writes key and value into the same fields",
              f"reuse path writes key -> .{reuse.get(k)}, value -> .{reuse.get(v)} (constructor: .{kf}, .{vf})",
              scenario="after an eviction the reused node reports the old key or a swapped key/value")
    g = cf.getitem
    rv = [dotted(r.value) for r in returns_of(g.node) if r.value is not None]
    rep.check("C07.R6", g, "lookup-returns-value", bool(rv) and all(d and d[-1] == vf and d[-2] == cf.lf.payload for d in rv),
              f"lookup returns .{vf}", f"lookup returns {rv} instead of the value field .{vf}",
              scenario="c['a'] = 1; c['a'] returns the key or the count")
    it = cf.iter
    attrs = {n.attr for n in ast.walk(it.node) if isinstance(n, ast.Attribute) and n.attr in fields}
    rep.check("C07.R6", it, "iter-yields-key", attrs == {kf}, f"iteration yields .{kf}",
              f"iteration reads {sorted(attrs)} instead of the key field", scenario="list(cache) lists values or counts")
    ev = []
    for n in walk_own(f.node):
        if isinstance(n, ast.Delete):
            for t in n.targets:
                if isinstance(t, ast.Subscript) and cf.is_dict(t.value, f) and not (isinstance(t.slice, ast.Name) and t.slice.id == k):
                    ev.append((path_of(t.slice, sflow, keep=(f.self_name,)), n))
    for d, n in ev:
        rep.check("C07.R6", f, "evicts-victim-key", bool(d) and d[-1] == kf and d[-2] == cf.lf.payload,
                  f"evicts the victim node's .{kf}", f"evicts dict key {'.'.join(d) if d else '?'}",
                  scenario="eviction raises KeyError or removes an unrelated key", line=n.lineno)
