"""C07 — LFUCache evicts a least frequently used key and keeps the latest stored value (DESIGN.md §6)."""
from __future__ import annotations

import ast
from typing import List, Optional, Set

from ..absint import Client, Ctx, Interp
from ..model import AnalysisError, Func, Program, walk_own
from ..report import Report
from ..resolve import const_value, dotted
from ..util import assigned_value, iter_stores, returns_of, src
from .cachefam import (CACHES_MOD, CacheFacts, membership_polarity, rule_coherence_capacity, rule_invalidation, rule_list_ops, rule_lookup_source, rule_value_stored)


def run(prog: Program, rep: Report):
    cf = CacheFacts(prog, "LFUCache")
    rep.attempt(lambda: rule_value_stored(prog, rep, cf, "C07.R1"))
    rep.attempt(lambda: rule_invalidation(prog, rep, cf, "C07.R2"))
    rep.attempt(lambda: rule_coherence_capacity(prog, rep, cf, "C07.R3", "C07.R3c"))
    helper, count_field = find_increment_helper(prog, cf)
    rep.attempt(lambda: r4_counts(prog, rep, cf, helper, count_field))
    rep.attempt(lambda: r5_helper(prog, rep, cf, helper, count_field))
    rep.attempt(lambda: r6_item_layout(prog, rep, cf, count_field))
    rep.attempt(lambda: rule_list_ops(prog, rep, cf, "C07.R7"))
    rep.attempt(lambda: rule_lookup_source(prog, rep, cf, "C07.R8"))
    from .memo import public_entry_points, rule_derived_state
    rep.attempt(lambda: rule_derived_state(prog, rep, "C07.R9", cf.cls, {cf.dict_field, cf.list_field}, public_entry_points(prog, cf.cls), config={cf.cap_field},
                       what="a snapshot of the order, a remembered node or a bound method of the list must not survive a store, delete, "
                            "eviction or clear"))
    from .ownership import rule_no_class_state
    rep.attempt(lambda: rule_no_class_state(prog, rep, "C07.R10", [cf.cls, cf.lf.lst]))
    from .mixins import rule_mixin_surface
    rep.attempt(lambda: rule_mixin_surface(prog, rep, "C07.R11", [cf.cls]))
    from .cachefam import rule_accepts_capacity
    rep.attempt(lambda: rule_accepts_capacity(prog, rep, cf, "C07.R14"))
    from .cachefam import rule_failed_lookup_noop
    rep.attempt(lambda: rule_failed_lookup_noop(prog, rep, cf, "C07.R15"))
    from .cachefam import rule_value_parametric
    item_cls = prog.maybe_cls("Item", CACHES_MOD)
    vfields = set(_dataclass_fields(item_cls)) - {count_field} if item_cls is not None else set()

    def is_value(e, f, flow):
        # <node>.data.<field of Item other than the count and the key>: decided by name, the key field is compared not truth-tested
        return isinstance(e, ast.Attribute) and e.attr in vfields and e.attr != "key" and isinstance(e.value, ast.Attribute) \
            and e.value.attr == cf.lf.payload
    rep.attempt(lambda: rule_value_parametric(prog, rep, cf, "C07.R13", is_value, "<node>.data.value"))
    from .mixins import rule_fresh_iterator
    rep.attempt(lambda: rule_fresh_iterator(prog, rep, "C07.R12", [cf.cls]))


def find_increment_helper(prog, cf: CacheFacts):
    """the private method that increments a payload field of its node parameter, and that field"""
    for f in cf.cls.methods.values():
        if f.self_name is None or len(f.params) < 2:
            continue
        node = f.params[1]
        from ..flow import Flow
        from ..util import path_of
        fl = Flow(f.node)
        for n in walk_own(f.node):
            if isinstance(n, ast.AugAssign) and isinstance(n.op, ast.Add):
                d = path_of(n.target, fl, keep=(node,)) if not isinstance(n.target, ast.Name) else None
                if d and len(d) == 3 and d[0] == node and d[1] == cf.lf.payload:
                    return f, d[2]
            # the long way round:  item = node.data; new = item.count + by; item.count = new
            if isinstance(n, ast.Assign) and len(n.targets) == 1 and isinstance(n.targets[0], ast.Attribute):
                d = path_of(n.targets[0], fl, keep=(node,))
                v = fl.expand(n.value) if isinstance(n.value, ast.Name) else n.value
                if d and len(d) == 3 and d[0] == node and d[1] == cf.lf.payload and isinstance(v, ast.BinOp) and isinstance(v.op, ast.Add) \
                        and any(path_of(side, fl, keep=(node,)) == d for side in (v.left, v.right) if isinstance(side, ast.Attribute)):
                    return f, d[2]
    raise AnalysisError("LFUCache: increment helper (node.<payload>.<count> += ...) not found")


def _tests_self(test, f) -> bool:
    """the membership test has the cache object itself as its container: `k in self`, `k not in self`, `not (k in self)`"""
    if isinstance(test, ast.UnaryOp) and isinstance(test.op, ast.Not):
        return _tests_self(test.operand, f)
    return isinstance(test, ast.Compare) and len(test.ops) == 1 and isinstance(test.ops[0], (ast.In, ast.NotIn)) \
        and isinstance(test.comparators[0], ast.Name) and test.comparators[0].id == f.self_name


class _IncCount(Client):
    """state = (number of increment-helper calls on this path (saturating at 2), key present?)"""

    def __init__(self, cf, helper, key):
        self.cf, self.helper, self.key = cf, helper, key

    def should_inline(self, func, call, ctx):
        return func.cls is self.cf.cls and func is not self.helper

    def classify(self, call, ctx: Ctx):
        if ctx.scope.resolve_call(call) is self.helper:
            return "inc"
        return None

    def refine(self, test, state, ctx):
        n, present = state
        pol = membership_polarity(self.cf, test, self.key, ctx.func)
        if pol is not None:
            # `k in self` on a class without a __contains__ of its own is Mapping.__contains__: it runs self[k], and a successful
            # look-up counts a use
            extra = 1 if _tests_self(test, ctx.func) and self.lookup_counts else 0
            yes, no = (min(2, n + extra), True), (n, False)
            return ((yes,), (no,)) if pol else ((no,), (yes,))
        return (state,), (state,)

    @property
    def lookup_counts(self):
        own = self.cf.P.resolve(self.cf.cls, "__contains__")
        return own is None or getattr(own.cls, "is_external", False)

    def event(self, kind, node, state, ctx):
        n, present = state
        if kind == "inc":
            return ((min(2, n + 1), present),)
        return (state,)


class _InitCount(Client):
    """state = (key present?, count given to the node on this path: None | 1 | 'other')"""

    def __init__(self, cf, key, count_field, item_name, fields):
        self.cf, self.key, self.cnt, self.item, self.fields = cf, key, count_field, item_name, fields
        self._flows = {}

    def should_inline(self, func, call, ctx):
        return False

    def refine(self, test, state, ctx):
        present, c = state
        pol = membership_polarity(self.cf, test, self.key, ctx.func)
        if pol is not None:
            yes, no = (True, c), (False, c)
            return ((yes,), (no,)) if pol else ((no,), (yes,))
        return (state,), (state,)

    def event(self, kind, node, state, ctx):
        present, c = state
        if kind == "store" and isinstance(node, ast.Attribute) and node.attr == self.cnt:
            from ..flow import Flow
            from ..util import path_of
            fl = self._flows.setdefault(id(ctx.func.node), Flow(ctx.func.node))
            d = path_of(node, fl, keep=(ctx.func.self_name,))       # `item = node.data; item.meta = 1` is `node.data.meta = 1`
            if d and len(d) >= 3 and d[-2] == self.cf.lf.payload:
                v = const_value(assigned_value(node), "?") if assigned_value(node) is not None else "?"
                return ((present, 1 if v == 1 and not isinstance(v, bool) else "other"),)
        if kind in ("construct", "call") and isinstance(node, ast.Call) and self.item and src(node.func) == self.item:
            v = "?"
            if self.cnt in self.fields and len(node.args) > self.fields.index(self.cnt):
                v = const_value(node.args[self.fields.index(self.cnt)], "?")
            for kw in node.keywords:
                if kw.arg == self.cnt:
                    v = const_value(kw.value, "?")
            return ((present, 1 if v == 1 and not isinstance(v, bool) else "other"),)
        return (state,)


class _HelperPaths(Client):
    """state = number of increments of the count on this path (saturating at 2)"""

    def __init__(self, node_param, payload, cnt):
        self.n, self.payload, self.cnt = node_param, payload, cnt

    def should_inline(self, func, call, ctx):
        return False

    def _path(self, e, ctx):
        from ..flow import Flow
        from ..util import path_of
        fl = getattr(ctx.func.node, "_flow", None)
        if fl is None:
            fl = ctx.func.node._flow = Flow(ctx.func.node)
        return path_of(e, fl, keep=(self.n,))

    def event(self, kind, node, state, ctx):
        if kind == "aug" and isinstance(node.target, ast.Attribute) and self._path(node.target, ctx) == (self.n, self.payload, self.cnt) \
                and isinstance(node.op, ast.Add):
            return (min(2, state + 1),)
        if kind == "store" and isinstance(node, ast.Attribute) and self._path(node, ctx) == (self.n, self.payload, self.cnt):
            return (min(2, state + 1),)
        return (state,)


def r4_counts(prog, rep: Report, cf: CacheFacts, helper: Func, count_field: str):
    rep.rule("C07.R4", "count discipline: every use path (lookup, store to a present key) calls the increment helper "
             "exactly once; insertion paths set the count to the constant 1; new nodes enter at the victim end; "
             "iteration walks forward from the victim end (smallest count first)", floor=5)
    lf = cf.lf
    g = cf.getitem
    rep.fn(g, cf.setitem, helper)
    it = Interp(prog, _IncCount(cf, helper, g.params[1]))
    ex = it.run(g, {(0, None)}, cf.cls)
    counts = {s[0] for s in ex.normal | ex.ret}
    rep.check("C07.R4", g, "lookup-increments-once", counts == {1},
              "every successful lookup increments the count once",
              f"lookup paths call the increment helper {sorted(counts)} times",
              scenario="use counts drift from the reference: the victim of the next eviction is not a least "
                       "frequently used key")
    f = cf.setitem
    it = Interp(prog, _IncCount(cf, helper, f.params[1]))
    ex = it.run(f, {(0, None)}, cf.cls)
    finals = ex.normal | ex.ret
    pres = {s[0] for s in finals if s[1] is True}
    absent = {s[0] for s in finals if s[1] is False}
    via_self = ""
    if any(isinstance(n, ast.Compare) and _tests_self(n, f) for n in ast.walk(f.node)) and it.client.lookup_counts:
        via_self = (" (`in self` on a class without its own __contains__ is Mapping.__contains__, which runs self[k]: the look-up "
                    "already counted one use)")
    if not pres or not absent:
        rep.unrec("C07.R4", f, "store-increments", "no membership test on the key parameter found in __setitem__")
    else:
        rep.check("C07.R4", f, "store-present-increments-once", pres == {1},
                  "store to a present key increments once", f"store to a present key increments {sorted(pres)} times" + via_self,
                  scenario="c[k]=v on a present key must count as one use")
        rep.check("C07.R4", f, "store-new-no-increment", absent == {0},
                  "insertion does not call the increment helper (count set to 1 directly)",
                  f"insertion path calls the increment helper {sorted(absent)} times on top of the initial count",
                  scenario="a new key starts with count 2 and is not the next victim although it is the least used")
    # insertion paths set the count of the node kept under the key to the constant 1 (all-paths); from here on the statements
    # of __setitem__ are read with the cache's private helpers inlined (sa/inline.py)
    f = cf.setitem_v
    item_cls = prog.maybe_cls("Item", CACHES_MOD)
    fields = _dataclass_fields(item_cls) if item_cls is not None else []
    client = _InitCount(cf, f.params[1], count_field, item_cls.name if item_cls else None, fields)
    it = Interp(prog, client)
    ex = it.run(f, {(None, None)}, cf.cls)
    finals = ex.normal | ex.ret
    absent_counts = sorted({str(s[1]) for s in finals if s[0] is False})
    if not absent_counts:
        rep.unrec("C07.R4", f, "initial-count", "no insertion path found")
    else:
        rep.check("C07.R4", f, "initial-count", absent_counts == ["1"], "every insertion path (new node, reused node) sets the count to 1",
                  f"insertion paths leave the count of the stored node as {absent_counts} (None = never set: the reused node keeps the "
                  f"evicted key's count)",
                  scenario="cache(2): bring A and B to count 3, store X (evicts one, reuses its node): X must start with count 1, "
                           "otherwise it outlives keys that were used more often")
    # insertion end == victim end == head (forward iteration yields smallest count first)
    victims, inserts = [], []
    for n in walk_own(f.node):
        if isinstance(n, ast.Assign) and len(n.targets) == 1:
            d = dotted(n.value)
            if d and len(d) == 3 and d[:2] == (f.self_name, cf.list_field) and d[2] in lf.ends:
                victims.append(d[2])
        if isinstance(n, ast.Call) and isinstance(n.func, ast.Attribute) and cf.is_list(n.func.value, f) \
                and cf.list_delta.get(n.func.attr) == 1:
            inserts.append(cf.list_target_end.get(n.func.attr))
    if len(victims) != 1 or len(inserts) != 1 or inserts[0] is None:
        rep.unrec("C07.R4", f, "victim-end", f"victim selections {victims}, insert ends {inserts}")
    else:
        rep.check("C07.R4", f, "victim-end", victims[0] == inserts[0] == lf.head,
                  f"victim and new nodes at the {lf.head} end (smallest counts)",
                  f"victim taken from {victims[0]}, new nodes inserted at {inserts[0]}, forward iteration starts at "
                  f"{lf.head}: the evicted key is not one with the smallest count",
                  scenario="cache(2): c[1]; c[1]; c[2]=..; c[3]=.. must evict key 2 (count 1), not key 1 (count 3)")


def _dataclass_fields(cls) -> List[str]:
    out = []
    for st in cls.node.body:
        if isinstance(st, ast.AnnAssign) and isinstance(st.target, ast.Name):
            out.append(st.target.id)
    return out


def r5_helper(prog, rep: Report, cf: CacheFacts, helper: Func, count_field: str):
    rep.rule("C07.R5", "increment helper: count incremented before the scan; the scan walks the next link only while "
             "the next node's count is smaller than the node's; the node is moved after the last such node, guarded by "
             "an identity test", floor=3)
    lf = cf.lf
    f = helper
    rep.fn(f)
    node = f.params[1]
    hp = Interp(prog, _HelperPaths(node, lf.payload, count_field))
    hex_ = hp.run(f, {0}, cf.cls)
    incs = sorted({s for s in hex_.normal | hex_.ret})
    rep.check("C07.R5", f, "increments-on-every-path", incs == [1], "every path through the helper increments the count exactly once",
              f"paths through the increment helper change the count {incs} times (an early exit before the increment loses a use)",
              scenario="capacity 2: A used 4 times while it is the last node of the list, B used 3 times; storing C must evict B, "
                       "but A's uses were not counted and A is evicted")
    # The helper is run on every *suffix world*: the nodes that follow the used node, up to three of them, each with a count
    # smaller than / equal to / greater than the node's new count.  The helper's own tests decide every loop round, so the scan
    # is followed round by round (no widening); what is compared, through which locals, in a helper of its own or not, does not
    # matter.  Expected: the node ends up behind the last node of the leading run of smaller counts (or smaller-or-equal ones,
    # ties are left open by the property, but then in every world); nothing moves when that run is empty.
    from ..absint import RaiseExc
    from ..paths import strip_versions
    from ..symenv import SymClient, run_sym
    N = ("p", node)

    def depth_of(t):
        """k when t is node.next^k (versions ignored), else None"""
        t = strip_versions(t)
        k = 0
        while isinstance(t, tuple) and t[0] == "attr" and t[2] == lf.next_link:
            t, k = t[1], k + 1
        return k if t == N else None

    def count_depth(t):
        """k when t is node.next^k.<payload>.<count>"""
        t0 = strip_versions(t)
        if isinstance(t0, tuple) and t0[0] == "attr" and t0[2] == count_field and isinstance(t0[1], tuple) and t0[1][0] == "attr" \
                and t0[1][2] == lf.payload:
            return depth_of(t0[1][1])
        return None

    class _Scan(SymClient):
        unroll_loops = True
        max_depth = 10

        def __init__(s_, world):
            super().__init__()
            s_.w = world
            s_.moves = []
            s_.old_count = False
            s_.undecided = []
            s_._ver = 0

        def should_inline(s_, func, call, ctx):
            return func.cls is cf.cls and func is not None and func.name.startswith("_") and not func.name.startswith("__")

        def refine(s_, test, state, ctx):
            s_._ver = state[1]
            return super().refine(test, state, ctx)

        def _count_val(s_, t, user):
            k = count_depth(t)
            t0 = strip_versions(t)
            if k is None and isinstance(t0, tuple) and t0[0] == "bin" and t0[1] == "Add" and 0 in (count_depth(t0[2]), count_depth(t0[3])):
                return 0                               # the new count, computed ahead of its store (`new = item.count + by`)
            if k is None:
                return None
            if k == 0:
                if "incremented" not in (user or ()):
                    s_.old_count = True
                return 0
            if k > len(s_.w):
                return None
            return {"LT": -1, "EQ": 0, "GT": 1}[s_.w[k - 1]]

        def is_none(s_, term, env, user, ctx):
            k = depth_of(term)
            if k is not None:
                return k > len(s_.w)
            return super().is_none(term, env, user, ctx)

        def decide(s_, term, node_, env, user, ctx):
            t, neg = term, False
            while t[0] == "not":
                t, neg = t[1], not neg
            r = None
            if t[0] == "cmp":
                if t[1] in ("Is", "IsNot"):
                    a, b = depth_of(t[2]), depth_of(t[3])
                    if a is not None and b is not None:
                        r = (a == b) if t[1] == "Is" else (a != b)
                else:
                    a, b = s_._count_val(t[2], user), s_._count_val(t[3], user)
                    if a is not None and b is not None:
                        r = {"Lt": a < b, "LtE": a <= b, "Gt": a > b, "GtE": a >= b, "Eq": a == b, "NotEq": a != b}.get(t[1])
            else:
                k = depth_of(t)
                if k is not None:
                    r = k <= len(s_.w)            # truthiness of a node / None
            if r is None:
                s_.undecided.append(src(node_))
                fl_ = s_.pack(env, s_._ver, tuple(sorted(set(user or ()) | {"undecided"})))
                return ((fl_,), (fl_,))
            return r != neg

        def on(s_, kind, node_, env, ver, user, ctx):
            if kind == "load" and isinstance(node_, ast.Attribute):
                # reading a field of a node that does not exist
                b = depth_of(s_.sym(node_.value, env, ver, ctx))
                if b is not None and b > len(s_.w):
                    return RaiseExc(s_.pack(env, ver, user), "AttributeError")
            if kind in ("aug", "store"):
                tgt = node_.target if kind == "aug" else node_
                if isinstance(tgt, ast.Attribute) and count_depth(s_.sym(ast.Attribute(value=tgt.value, attr=tgt.attr, ctx=ast.Load()), env, ver, ctx)) == 0:
                    return [(env, ver, tuple(sorted(set(user or ()) | {"incremented"})))]
            if kind == "call" and isinstance(node_, ast.Call) and isinstance(node_.func, ast.Attribute) and cf.is_list(node_.func.value, ctx.func):
                args = tuple(depth_of(s_.sym(a, env, ver, ctx)) for a in node_.args)
                mv = ("move", node_.func.attr, args)
                return [(env, ver, tuple(sorted(set(user or ()) | {mv}, key=repr)))]
            return None

    def worlds():
        out = [()]
        for n_ in (1, 2, 3):
            def rec(prefix):
                if len(prefix) == n_:
                    out.append(tuple(prefix))
                    return
                for c_ in ("LT", "EQ", "GT"):
                    rec(prefix + [c_])
            rec([])
        return out
    identity_noop = set()
    for nm_, m_ in lf.lst.methods.items():
        if len(m_.params) == 3:
            body_ = [st for st in m_.node.body if not (isinstance(st, ast.Expr) and isinstance(st.value, ast.Constant))]
            if body_ and isinstance(body_[0], ast.If) and isinstance(body_[0].test, ast.Compare) and isinstance(body_[0].test.ops[0], ast.Is) \
                    and {src(body_[0].test.left), src(body_[0].test.comparators[0])} == {m_.params[1], m_.params[2]} \
                    and len(body_[0].body) == 1 and isinstance(body_[0].body[0], ast.Return) and body_[0].body[0].value is None:
                identity_noop.add(nm_)
    strict_bad, loose_bad, unrec, old = [], [], [], False
    n_worlds = 0
    for w in worlds():
        cl = _Scan(w)
        it_, ex_ = run_sym(prog, cl, f, cf.cls, user=())
        n_worlds += 1
        if it_.unrecognised:
            unrec.append("; ".join(it_.unrecognised))
            continue
        old = old or cl.old_count
        k_strict = 0
        while k_strict < len(w) and w[k_strict] == "LT":
            k_strict += 1
        k_loose = 0
        while k_loose < len(w) and w[k_loose] in ("LT", "EQ"):
            k_loose += 1
        outs = set()
        for st_ in ex_.ret | ex_.normal:
            u = st_[2] or ()
            mv = tuple(x for x in u if isinstance(x, tuple) and x[0] == "move")
            outs.add((mv, "undecided" in u))
        for st_, nm in ex_.exc:
            outs.add((("raise", nm), "undecided" in (st_[2] or ())))

        def ok_for(k, mv):
            if mv and mv[0] == "raise":
                return False
            # a move of the node behind itself is no move when the list operation returns at once for `node is after`
            mv = tuple(m for m in mv if not (m[1] in identity_noop and len(m[2]) == 2 and m[2][0] == m[2][1] == 0))
            if k == 0:
                return mv == ()
            return len(mv) == 1 and mv[0][1] == "move_after" and mv[0][2] == (0, k)
        if any(u for _, u in outs) and not all(ok_for(k_strict, mv) for mv, u in outs):
            unrec.append(f"for the followers {list(w)} the outcome depends on a test that is not about the counts or the links: {cl.undecided[:1]}")
            continue
        if not all(ok_for(k_strict, mv) for mv, _ in outs):
            strict_bad.append((w, sorted(outs, key=repr)))
        if not all(ok_for(k_loose, mv) for mv, _ in outs):
            loose_bad.append((w, sorted(outs, key=repr)))
    rep.count("suffix_worlds", n_worlds)
    rep.check("C07.R5", f, "increment-before-scan", not old, "the scan compares against the node's new count",
              "the count is not incremented before the scan: the node is positioned by its old count",
              scenario="after a use the node stays in front of nodes with a smaller count; the victim is not minimal")
    if unrec:
        rep.unrec("C07.R5", f, "scan", unrec[0])
        rep.unrec("C07.R5", f, "move", unrec[0])
    elif not strict_bad or not loose_bad:
        rep.ok("C07.R5", f, "scan", f"the node ends behind the leading run of {'smaller' if not strict_bad else 'smaller-or-equal'} counts "
               f"in each of {n_worlds} suffix worlds (followers up to three, every path)")
        rep.ok("C07.R5", f, "move", "one move_after(node, last node of the run) when the run is not empty, no list operation otherwise")
    else:
        w, outs = strict_bad[0]

        def say(o):
            mv = o[0]
            if mv and mv[0] == "raise":
                return f"raises {mv[1]}"
            if not mv:
                return "does not move the node"
            return "; ".join(f"{m[1]}(node, {'node' + '.next' * (m[2][1] or 0) if len(m[2]) > 1 and m[2][1] is not None else '?'})" for m in mv)
        rep.viol("C07.R5", f, "scan", f"with followers whose counts are {list(w)} (relative to the node's new count) the helper "
                 f"{' / '.join(say(o) for o in outs)}: the node does not end up behind exactly the leading run of smaller counts",
                 scenario="counts 1,2,3 in the list; using the count-1 node twice must place it behind the 2; a wrong "
                          "comparison leaves the list unsorted and a non-minimal key is evicted")
        rep.viol("C07.R5", f, "move", "see the scan instance: the list operation made does not match the run of smaller counts",
                 scenario="moving a node after itself corrupts the links; moving the cursor after the node unsorts the list")


def r6_item_layout(prog, rep: Report, cf: CacheFacts, count_field: str):
    rep.rule("C07.R6", "payload layout agreement: the Item constructed for a new key receives (key, value, count) in its "
             "field order; lookup returns the value field; iteration and eviction use the key field", floor=3)
    item_cls = prog.maybe_cls("Item", CACHES_MOD)
    f = cf.setitem_v        # statements of __setitem__ with the cache's private helpers inlined
    from ..flow import Flow
    from ..util import path_of
    sflow = Flow(f.node)
    if item_cls is None:
        rep.unrec("C07.R6", f, "writer", "Item class not found")
        return
    fields = _dataclass_fields(item_cls)
    k, v = f.params[1], f.params[2]
    kf = vf = None
    for n in walk_own(f.node):
        if isinstance(n, ast.Call) and src(n.func) == item_cls.name:
            names = [a.id if isinstance(a, ast.Name) else None for a in n.args]
            for kw in n.keywords:
                if isinstance(kw.value, ast.Name):
                    if kw.value.id == k: kf = kw.arg
                    if kw.value.id == v: vf = kw.arg
            if k in names and names.index(k) < len(fields): kf = fields[names.index(k)]
            if v in names and names.index(v) < len(fields): vf = fields[names.index(v)]
    if kf is None or vf is None:
        rep.unrec("C07.R6", f, "writer", "Item(...) construction with key and value parameters not found")
        return
    rep.fn(f, cf.getitem, cf.iter)
    rep.ok("C07.R6", f, "writer", f"Item fields: key -> .{kf}, value -> .{vf}, count -> .{count_field}")
    # reuse path writes the same fields
    reuse = {}
    for t, val, _st in iter_stores(f.node):
        if isinstance(val, ast.Name):
            d = path_of(t, sflow, keep=(f.self_name,))     # `item = node.data; item.key = k` is `node.data.key = k`
            if d and len(d) >= 3 and d[-2] == cf.lf.payload:
                reuse[val.id] = d[-1]
    rep.check("C07.R6", f, "reuse-writes-same-fields", reuse.get(k) == kf and reuse.get(v) == vf,
              "the reuse path writes key and value into the same fields",
              f"reuse path writes key -> .{reuse.get(k)}, value -> .{reuse.get(v)} (constructor: .{kf}, .{vf})",
              scenario="after an eviction the reused node reports the old key or a swapped key/value")
    g = cf.getitem
    gflow = Flow(g.node)
    rv = [path_of(gflow.expand(r.value) if isinstance(r.value, ast.Name) else r.value, gflow, keep=(g.self_name,))
          for r in returns_of(g.node) if r.value is not None]
    rep.check("C07.R6", g, "lookup-returns-value", bool(rv) and all(d and d[-1] == vf and d[-2] == cf.lf.payload for d in rv),
              f"lookup returns .{vf}", f"lookup returns {rv} instead of the value field .{vf}",
              scenario="c['a'] = 1; c['a'] returns the key or the count")
    it = cf.iter
    attrs = {n.attr for n in ast.walk(it.node) if isinstance(n, ast.Attribute) and n.attr in fields}
    rep.check("C07.R6", it, "iter-yields-key", attrs == {kf}, f"iteration yields .{kf}",
              f"iteration reads {sorted(attrs)} instead of the key field", scenario="list(cache) lists values or counts")
    ev = []
    for n in walk_own(f.node):
        if isinstance(n, ast.Delete):
            for t in n.targets:
                if isinstance(t, ast.Subscript) and cf.is_dict(t.value, f) and not (isinstance(t.slice, ast.Name) and t.slice.id == k):
                    ev.append((path_of(t.slice, sflow, keep=(f.self_name,)), n))
    for d, n in ev:
        rep.check("C07.R6", f, "evicts-victim-key", bool(d) and d[-1] == kf and d[-2] == cf.lf.payload,
                  f"evicts the victim node's .{kf}", f"evicts dict key {'.'.join(d) if d else '?'}",
                  scenario="eviction raises KeyError or removes an unrelated key", line=n.lineno)
