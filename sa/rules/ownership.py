"""Storage a class mutates in place is owned by the instance (shared by several properties).

For a field F that the class updates in place (``self.F.append(...)``, ``self.F[i] = ...``, ``del self.F[i]``), every value the
class itself stores into F must be *fresh*: created by the storing method (display, comprehension, ``list(...)``/``sorted(...)``/
``dict(...)``/``x.copy()``/a slice/a concatenation/a constructor call) or derived from such a value through local names.  A value
that is another object's field (``other.values``), a parameter, or one of the instance's other fields makes two objects share
one mutable container: a later in-place update through either shows up in both.
"""
from __future__ import annotations

import ast
from typing import Iterable, List, Optional, Set, Tuple

from ..flow import Flow
from ..model import Cls, Func, Program
from ..report import Report
from ..resolve import Scope, dotted
from ..util import ext_name, iter_stores, returns_of, src
from .memo import MUTATOR_CALLS, field_uses, own_methods

FRESH_CALLS = {"list", "sorted", "dict", "set", "frozenset", "tuple", "bytearray", "copy.copy", "copy.deepcopy", "copy", "deepcopy",
               "collections.deque", "deque", "collections.OrderedDict", "OrderedDict", "reversed", "range", "zip", "map", "filter",
               "enumerate", "array.array", "array", "str", "int", "float", "len", "max", "min", "sum"}


def freshness(prog: Program, f: Func, e: ast.expr, flow: Optional[Flow] = None, depth: int = 0) -> Tuple[str, str]:
    """('fresh' | 'alias' | 'unknown', description)"""
    flow = flow or Flow(f.node)
    if isinstance(e, (ast.List, ast.ListComp, ast.Dict, ast.DictComp, ast.Set, ast.SetComp, ast.Tuple, ast.Constant, ast.GeneratorExp,
                      ast.JoinedStr)):
        return "fresh", "display"
    if isinstance(e, ast.BinOp):
        return "fresh", "new object from an operator"
    if isinstance(e, ast.Subscript):
        if isinstance(e.slice, ast.Slice):
            return "fresh", "slice copy"
        k, w = freshness(prog, f, e.value, flow, depth + 1)
        return ("alias", f"element of {w}") if k == "alias" else ("unknown", src(e))
    if isinstance(e, ast.IfExp):
        ks = [freshness(prog, f, e.body, flow, depth + 1), freshness(prog, f, e.orelse, flow, depth + 1)]
        for want in ("alias", "unknown", "fresh"):
            for k in ks:
                if k[0] == want:
                    return k
    if isinstance(e, ast.Call):
        name = ext_name(prog, f, e) or src(e.func)
        if name in FRESH_CALLS or name.split(".")[-1] in ("copy", "deepcopy", "keys", "values", "items"):
            return "fresh", f"{name}(...)"
        tgt = Scope(prog, f, f.cls).resolve_call(e) if depth < 4 else None
        if isinstance(tgt, Cls):
            return "fresh", f"new {tgt.name}"
        if isinstance(tgt, Func) and any("cache" in d.lower() for d in tgt.decorators):
            return "alias", f"the result of the memoised `{tgt.name}` (@{[d for d in tgt.decorators if 'cache' in d.lower()][0]}): every " \
                            "caller with equal arguments receives the same object"
        if isinstance(tgt, Func):
            rets = [r for r in returns_of(tgt.node) if r.value is not None]
            ks = [freshness(prog, tgt, r.value, None, depth + 1) for r in rets]
            if ks and all(k[0] == "fresh" for k in ks):
                return "fresh", f"{tgt.name}() returns fresh values"
            for k in ks:
                if k[0] == "alias":
                    return "unknown", f"{tgt.name}() may return {k[1]}"
        return "unknown", src(e)[:60]
    if isinstance(e, ast.Name):
        if e.id in f.params:
            return "alias", f"the parameter `{e.id}`"
        if depth < 6:
            ds = flow.defs_of(e)
            ks = []
            for d in ds:
                if isinstance(d.value, ast.expr) and d.kind == "assign" and d.index is None:
                    ks.append(freshness(prog, f, d.value, flow, depth + 1))
                else:
                    ks.append(("unknown", f"`{e.id}` ({d.kind})"))
            for want in ("alias", "unknown", "fresh"):
                for k in ks:
                    if k[0] == want:
                        return k
        return "unknown", f"`{e.id}`"
    if isinstance(e, ast.Attribute):
        d = dotted(e)
        if d and d[0] == f.self_name:
            return "alias", f"the instance's own field `{src(e)}`"
        return "alias", f"another object's field `{src(e)}`"
    return "unknown", src(e)[:60]


def rule_owned_storage(prog: Program, rep: Report, rule: str, c: Cls, storage: Iterable[str], floor: int = 1, declare: bool = True,
                       allow_self_alias: bool = False):
    storage = set(storage)
    if declare:
        rep.rule(rule, f"{c.name} owns the containers it mutates in place ({', '.join(sorted(storage))}): every value the class stores "
                 "into them is created by the storing method (display, comprehension, list()/sorted()/dict()/copy/slice/"
                 "concatenation/constructor) or derived from such a value; it is never another object's field, a parameter or "
                 "another field of the instance", floor=floor)
    stores, inplace, loads = field_uses(c)
    n = 0
    for f in own_methods(c):
        flow = None
        for t, v, st in iter_stores(f.node):
            d = dotted(t)
            if not (d and len(d) == 2 and d[0] == f.self_name and d[1] in storage) or v is None:
                continue
            if not inplace.get(d[1]):
                continue          # never updated in place: sharing it is harmless
            flow = flow or Flow(f.node)
            kind, why = freshness(prog, f, v, flow)
            n += 1
            role = f"owned:{c.name}.{d[1]}:{f.name}:{n}"
            rep.fn(f)
            if kind == "fresh" or (allow_self_alias and "own field" in why):
                rep.ok(rule, f, role, f"self.{d[1]} = {why}")
            elif kind == "alias":
                rep.viol(rule, f, role, f"self.{d[1]} is assigned {why} (`{src(v)[:60]}`): the instance shares a container it later "
                         "updates in place",
                         scenario=f"b = {c.name}(a) (or the caller keeps the argument): a later add/discard/delete on one object "
                                  "changes the other, each still looking consistent on its own", line=st.lineno)
            else:
                rep.unrec(rule, f, role, f"cannot tell whether `{src(v)[:60]}` is a fresh container ({why})", line=st.lineno)
    if n == 0:
        rep.unrec(rule, prog.resolve(c, "__init__") or own_methods(c)[0], f"owned:{c.name}", "no store into the storage fields found")


def _must_assign(prog: Program, c: Cls, f: Func, seen=()) -> Set[str]:
    """fields of self that are assigned on EVERY path through ``f`` that ends normally (structural must-analysis: an `if` gives the
    intersection of its arms, a loop body may not run, a path that raises does not count)"""
    me = f.self_name
    ALL = None                                     # "this block never falls through"

    def meet(a, b):
        if a is ALL:
            return b
        if b is ALL:
            return a
        return a & b

    def expr_assigns(e) -> Set[str]:
        out = set()
        for n in ast.walk(e):
            if isinstance(n, ast.Call) and isinstance(n.func, ast.Attribute) and n.func.attr == "__init__" and f.name == "__init__":
                # super().__init__(...) / Base.__init__(self, ...)
                base = n.func.value
                target = None
                if isinstance(base, ast.Call) and src(base.func) == "super":
                    for k in c.repo_mro():
                        if k is not f.cls and not k.is_external and k not in seen and "__init__" in k.methods \
                                and f.cls in c.repo_mro() and c.repo_mro().index(k) > c.repo_mro().index(f.cls):
                            target = k
                            break
                elif isinstance(base, ast.Name):
                    target = next((k for k in c.repo_mro() if k.name == base.id and not k.is_external and "__init__" in k.methods), None)
                if target is not None:
                    out |= _must_assign(prog, c, target.methods["__init__"], tuple(seen) + (f.cls,)) or set()
        return out

    def block(stmts) -> Optional[Set[str]]:
        got: Set[str] = set()
        for st in stmts:
            if isinstance(st, (ast.Return, ast.Raise)):
                if isinstance(st, ast.Raise):
                    return ALL
                return ("RET", got)                          # the caller records the path
            if isinstance(st, (ast.Assign, ast.AnnAssign, ast.AugAssign)):
                tg = st.targets if isinstance(st, ast.Assign) else [st.target]
                if getattr(st, "value", None) is not None:
                    got |= expr_assigns(st.value)
                    for t in tg:
                        for x in ([t] if not isinstance(t, (ast.Tuple, ast.List)) else t.elts):
                            if isinstance(x, ast.Attribute) and isinstance(x.value, ast.Name) and x.value.id == me:
                                got.add(x.attr)
            elif isinstance(st, ast.Expr):
                got |= expr_assigns(st.value)
            elif isinstance(st, ast.If):
                a, b = block(st.body), block(st.orelse)
                if isinstance(a, tuple):
                    rets.append(got | a[1]); a = ALL
                if isinstance(b, tuple):
                    rets.append(got | b[1]); b = ALL
                m = meet(a, b)
                if m is ALL:
                    return ALL
                got |= m
            elif isinstance(st, (ast.For, ast.While, ast.AsyncFor)):
                for sub in (st.body, st.orelse):
                    r = block(sub)
                    if isinstance(r, tuple):
                        rets.append(set(got))          # a return inside a loop: only what was assigned before the loop counts
            elif isinstance(st, (ast.With, ast.AsyncWith)):
                r = block(st.body)
                if isinstance(r, tuple):
                    return ("RET", got | r[1])
                if r is ALL:
                    return ALL
                got |= r
            elif isinstance(st, ast.Try):
                r = block(st.finalbody)
                if isinstance(r, tuple):
                    return ("RET", got | r[1])
                if r is not ALL:
                    got |= r
                for sub in [st.body, st.orelse] + [h.body for h in st.handlers]:
                    q = block(sub)
                    if isinstance(q, tuple):
                        rets.append(set(got))
        return got

    rets: List[Set[str]] = []
    r = block(f.node.body)
    if isinstance(r, tuple):
        rets.append(r[1])
    elif r is not ALL:
        rets.append(r)
    if not rets:
        return set()
    out = rets[0]
    for x in rets[1:]:
        out = out & x
    return out


def rule_no_class_state(prog: Program, rep: Report, rule: str, classes: List[Cls], declare: bool = True, floor: Optional[int] = None):
    """per-instance state lives on the instance"""
    if declare:
        rep.rule(rule, "state lives on the instance, not on the class: no method stores into an attribute of the class (Class.x = / "
                 "cls.x = / type(self).x = / self.__class__.x =), no class-level attribute holding a mutable container is updated in "
                 "place through self or read through self without the constructor having assigned it on every path, and no parameter "
                 "whose default is a mutable display or a constructed object (a queue, a lock, a list) is stored into a field: two "
                 "objects in one process would share it", floor=floor if floor is not None else len(classes))
    for c in classes:
        class_level = {}
        for k in c.repo_mro():
            if k.is_external:
                continue
            for st in k.node.body:
                tgt, val = None, None
                if isinstance(st, ast.Assign) and len(st.targets) == 1 and isinstance(st.targets[0], ast.Name):
                    tgt, val = st.targets[0].id, st.value
                elif isinstance(st, ast.AnnAssign) and isinstance(st.target, ast.Name) and st.value is not None:
                    tgt, val = st.target.id, st.value
                if tgt and not (tgt.startswith("__") and tgt.endswith("__")):
                    class_level.setdefault(tgt, (k, st, val))
        stores, inplace, loads = field_uses(c)
        init = prog.resolve(c, "__init__")
        init_assigned = _must_assign(prog, c, init) if init is not None and not getattr(init.cls, "is_external", False) else set()
        problems = []
        for name, (k, st, val) in sorted(class_level.items()):
            mutable = isinstance(val, (ast.List, ast.Dict, ast.Set, ast.ListComp, ast.DictComp, ast.SetComp)) or \
                (isinstance(val, ast.Call) and src(val.func) in ("list", "dict", "set", "bytearray", "collections.deque", "deque",
                                                                 "collections.defaultdict", "defaultdict", "collections.OrderedDict"))
            if mutable and name in inplace and name not in init_assigned:
                f0, n0 = inplace[name][0]
                problems.append((n0.lineno, f"the class attribute `{name} = {src(val)}` of {k.name} is updated in place through self in "
                                            f"{f0.name} and the constructor does not give the instance its own container on every path"))
        # a default argument value is created once, when the function is defined: stored into a field it is shared by every
        # instance constructed with the default
        STATEFUL_MAKERS = {"Queue", "SimpleQueue", "JoinableQueue", "LifoQueue", "PriorityQueue", "Lock", "RLock", "Event", "Condition",
                           "Semaphore", "BoundedSemaphore", "Barrier", "deque", "defaultdict", "OrderedDict", "Counter", "list", "dict",
                           "set", "bytearray", "StringIO", "BytesIO", "Manager", "Value", "Array", "Pipe", "array"}
        for f in own_methods(c):
            a = f.node.args
            pos = a.posonlyargs + a.args
            pairs = list(zip(pos[len(pos) - len(a.defaults):], a.defaults)) + [(x, d) for x, d in zip(a.kwonlyargs, a.kw_defaults) if d is not None]
            for arg, dflt in pairs:
                display = isinstance(dflt, (ast.List, ast.Dict, ast.Set, ast.ListComp, ast.DictComp, ast.SetComp))
                made = False
                if isinstance(dflt, ast.Call):
                    nm = src(dflt.func)
                    tail = nm.split(".")[-1]
                    k2 = next((k for k in prog.classes.values() if not k.is_external and k.name == tail), None)
                    if k2 is not None:
                        # an object of a repository class: shared state only if the class has instance fields at all
                        st2, inp2, _ = field_uses(k2)
                        made = bool(st2 or inp2)
                    else:
                        made = tail in STATEFUL_MAKERS
                if not (display or made):
                    continue
                fl = None
                for t, v, st in iter_stores(f.node):
                    d = dotted(t)
                    if d and len(d) == 2 and d[0] == f.self_name and isinstance(v, ast.Name) and v.id == arg.arg:
                        fl = fl or Flow(f.node)
                        if not fl.origin_is_param(v, arg.arg):
                            continue
                        if display and d[1] not in inplace:
                            continue          # a display that is only ever read through the field is harmless
                        problems.append((st.lineno, f"{f.name} stores its parameter `{arg.arg}` in self.{d[1]}, and the default value "
                                                    f"`{src(dflt)}` is one object created when the function was defined: every "
                                                    f"{c.name} built with the default shares it"))
        for f in own_methods(c):
            for n in ast.walk(f.node):
                if isinstance(n, ast.Attribute) and isinstance(n.ctx, (ast.Store, ast.Del)):
                    base = n.value
                    via = None
                    if isinstance(base, ast.Name) and (base.id in {k.name for k in c.repo_mro()} or (f.is_classmethod and f.params and base.id == f.params[0])):
                        via = base.id
                    elif isinstance(base, ast.Call) and src(base.func) == "type" and len(base.args) == 1 and isinstance(base.args[0], ast.Name) \
                            and base.args[0].id == f.self_name:
                        via = src(base)
                    elif isinstance(base, ast.Attribute) and base.attr == "__class__":
                        via = src(base)
                    if via:
                        problems.append((n.lineno, f"{f.name} stores into the class attribute `{via}.{n.attr}`: the value is shared by every "
                                                   f"instance (and inherited by subclasses)"))
        anchor = prog.resolve(c, "__init__") or own_methods(c)[0]
        rep.fn(anchor)
        if problems:
            ln, why = sorted(problems)[0]
            rep.viol(rule, anchor, f"instance-state:{c.name}", why,
                     scenario="two objects alive in one process (or a parent and a subclass) read and update one shared container / "
                              "resource: closing or clearing through one breaks the other", line=ln)
        else:
            rep.ok(rule, anchor, f"instance-state:{c.name}", f"{len(class_level)} class-level names, none is shared mutable state")



def rule_snapshot(prog: Program, rep: Report, rule: str, c: Cls, declare: bool = True):
    """an immutable structure is defined by what it was given at construction: it keeps no reference to the caller's container"""
    if declare:
        rep.rule(rule, f"{c.name} is defined by the content it was given at construction: the constructor stores no parameter as given "
                 "(an alias of the caller's dict / list) in a field that other methods read later; what is kept is copied or derived",
                 floor=1)
    init = prog.resolve(c, "__init__")
    if init is None or getattr(init.cls, "is_external", False):
        return
    rep.fn(init)
    flow = Flow(init.node)
    stores, inplace, loads = field_uses(c)
    bad = None
    n = 0
    for t, v, st in iter_stores(init.node):
        d = dotted(t)
        if not (d and len(d) == 2 and d[0] == init.self_name) or v is None:
            continue
        n += 1
        if isinstance(v, ast.Name) and v.id in init.params[1:] and flow.origin_is_param(v, v.id):
            # scalars are fine; a container parameter is what matters: judged by its annotation when there is one
            arg = next((a for a in init.node.args.posonlyargs + init.node.args.args + init.node.args.kwonlyargs if a.arg == v.id), None)
            ann = src(arg.annotation) if arg is not None and arg.annotation is not None else ""
            scalar = ann in ("int", "float", "str", "bool", "bytes") or ann.startswith(("Optional[int", "Optional[str", "Optional[float",
                                                                                         "Optional[bool", "Callable", "Type["))
            readers = [f for f, _ in loads.get(d[1], []) if f.name != "__init__"]
            if not scalar and readers and ("Dict" in ann or "Mapping" in ann or "List" in ann or "Sequence" in ann or "Set" in ann
                                           or "Iterable" in ann or "dict" in ann or "list" in ann):
                bad = bad or (st, d[1], v.id, readers[0])
    if bad:
        st, fld, pname, reader = bad
        rep.viol(rule, init, f"snapshot:{c.name}", f"the constructor keeps the caller's `{pname}` itself in self.{fld} and {reader.name}() "
                 "reads it later: the structure changes when the caller clears, extends or reuses that container after construction",
                 scenario=f"d = {{...}}; m = {c.name}(d); d.clear(); look-ups / iteration of m now see the cleared dict", line=st.lineno)
    else:
        rep.ok(rule, init, f"snapshot:{c.name}", f"{n} field stores in the constructor, none keeps a container parameter as given for later reads")
