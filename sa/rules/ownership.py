"""Storage a class mutates in place is owned by the instance (shared by several properties).

For a field F that the class updates in place (``self.F.append(...)``, ``self.F[i] = ...``, ``del self.F[i]``), every value the
class itself stores into F must be *fresh*: created by the storing method (display, comprehension, ``list(...)``/``sorted(...)``/
``dict(...)``/``x.copy()``/a slice/a concatenation/a constructor call) or derived from such a value through local names.  A value
that is another object's field (``other.values``), a parameter, or one of the instance's other fields makes two objects share
one mutable container: a later in-place update through either shows up in both.
"""
from __future__ import annotations

import ast
from typing import Iterable, List, Optional, Set, Tuple

from ..flow import Flow
from ..model import Cls, Func, Program
from ..report import Report
from ..resolve import Scope, dotted
from ..util import ext_name, iter_stores, returns_of, src
from .memo import MUTATOR_CALLS, field_uses, own_methods

FRESH_CALLS = {"list", "sorted", "dict", "set", "frozenset", "tuple", "bytearray", "copy.copy", "copy.deepcopy", "copy", "deepcopy",
               "collections.deque", "deque", "collections.OrderedDict", "OrderedDict", "reversed", "range", "zip", "map", "filter",
               "enumerate", "array.array", "array", "str", "int", "float", "len", "max", "min", "sum"}


def freshness(prog: Program, f: Func, e: ast.expr, flow: Optional[Flow] = None, depth: int = 0) -> Tuple[str, str]:
    """('fresh' | 'alias' | 'unknown', description)"""
    flow = flow or Flow(f.node)
    if isinstance(e, (ast.List, ast.ListComp, ast.Dict, ast.DictComp, ast.Set, ast.SetComp, ast.Tuple, ast.Constant, ast.GeneratorExp,
                      ast.JoinedStr)):
        return "fresh", "display"
    if isinstance(e, ast.BinOp):
        return "fresh", "new object from an operator"
    if isinstance(e, ast.Subscript):
        if isinstance(e.slice, ast.Slice):
            return "fresh", "slice copy"
        k, w = freshness(prog, f, e.value, flow, depth + 1)
        return ("alias", f"element of {w}") if k == "alias" else ("unknown", src(e))
    if isinstance(e, ast.IfExp):
        ks = [freshness(prog, f, e.body, flow, depth + 1), freshness(prog, f, e.orelse, flow, depth + 1)]
        for want in ("alias", "unknown", "fresh"):
            for k in ks:
                if k[0] == want:
                    return k
    if isinstance(e, ast.Call):
        name = ext_name(prog, f, e) or src(e.func)
        if name in FRESH_CALLS or name.split(".")[-1] in ("copy", "deepcopy", "keys", "values", "items"):
            return "fresh", f"{name}(...)"
        tgt = Scope(prog, f, f.cls).resolve_call(e) if depth < 4 else None
        if isinstance(tgt, Cls):
            return "fresh", f"new {tgt.name}"
        if isinstance(tgt, Func):
            rets = [r for r in returns_of(tgt.node) if r.value is not None]
            ks = [freshness(prog, tgt, r.value, None, depth + 1) for r in rets]
            if ks and all(k[0] == "fresh" for k in ks):
                return "fresh", f"{tgt.name}() returns fresh values"
            for k in ks:
                if k[0] == "alias":
                    return "unknown", f"{tgt.name}() may return {k[1]}"
        return "unknown", src(e)[:60]
    if isinstance(e, ast.Name):
        if e.id in f.params:
            return "alias", f"the parameter `{e.id}`"
        if depth < 6:
            ds = flow.defs_of(e)
            ks = []
            for d in ds:
                if isinstance(d.value, ast.expr) and d.kind == "assign" and d.index is None:
                    ks.append(freshness(prog, f, d.value, flow, depth + 1))
                else:
                    ks.append(("unknown", f"`{e.id}` ({d.kind})"))
            for want in ("alias", "unknown", "fresh"):
                for k in ks:
                    if k[0] == want:
                        return k
        return "unknown", f"`{e.id}`"
    if isinstance(e, ast.Attribute):
        d = dotted(e)
        if d and d[0] == f.self_name:
            return "alias", f"the instance's own field `{src(e)}`"
        return "alias", f"another object's field `{src(e)}`"
    return "unknown", src(e)[:60]


def rule_owned_storage(prog: Program, rep: Report, rule: str, c: Cls, storage: Iterable[str], floor: int = 1, declare: bool = True,
                       allow_self_alias: bool = False):
    storage = set(storage)
    if declare:
        rep.rule(rule, f"{c.name} owns the containers it mutates in place ({', '.join(sorted(storage))}): every value the class stores "
                 "into them is created by the storing method (display, comprehension, list()/sorted()/dict()/copy/slice/"
                 "concatenation/constructor) or derived from such a value; it is never another object's field, a parameter or "
                 "another field of the instance", floor=floor)
    stores, inplace, loads = field_uses(c)
    n = 0
    for f in own_methods(c):
        flow = None
        for t, v, st in iter_stores(f.node):
            d = dotted(t)
            if not (d and len(d) == 2 and d[0] == f.self_name and d[1] in storage) or v is None:
                continue
            if not inplace.get(d[1]):
                continue          # never updated in place: sharing it is harmless
            flow = flow or Flow(f.node)
            kind, why = freshness(prog, f, v, flow)
            n += 1
            role = f"owned:{c.name}.{d[1]}:{f.name}:{n}"
            rep.fn(f)
            if kind == "fresh" or (allow_self_alias and "own field" in why):
                rep.ok(rule, f, role, f"self.{d[1]} = {why}")
            elif kind == "alias":
                rep.viol(rule, f, role, f"self.{d[1]} is assigned {why} (`{src(v)[:60]}`): the instance shares a container it later "
                         "updates in place",
                         scenario=f"b = {c.name}(a) (or the caller keeps the argument): a later add/discard/delete on one object "
                                  "changes the other, each still looking consistent on its own", line=st.lineno)
            else:
                rep.unrec(rule, f, role, f"cannot tell whether `{src(v)[:60]}` is a fresh container ({why})", line=st.lineno)
    if n == 0:
        rep.unrec(rule, prog.resolve(c, "__init__") or own_methods(c)[0], f"owned:{c.name}", "no store into the storage fields found")
