"""C15 — reorder buffers emit each item once in serial order; ring buffer keeps last N (DESIGN.md §6, partial)."""
from __future__ import annotations

import ast
from typing import Dict, List, Optional, Set, Tuple

from ..absint import Client, Ctx, Interp
from ..model import AnalysisError, Cls, Func, Program, walk_own
from ..orderings import NotAFormula, eval_order, weak_orderings
from ..report import Report
from ..resolve import const_value, dotted
from ..util import assigned_value, returns_of, src, norm

BUF_MOD = "windpyutils.buffers"
RING_MOD = "windpyutils.structures.circular_buffer"


class BufferFacts:
    """storage dict and cursor of a reorder buffer class, discovered from __init__ / observers"""

    def __init__(self, prog: Program, cls: Cls):
        self.cls = cls
        init = prog.method(cls, "__init__")
        self.storage = self.cursor = None
        for n in walk_own(init.node):
            if isinstance(n, ast.Assign) and len(n.targets) == 1:
                d = dotted(n.targets[0])
                if d and len(d) == 2 and d[0] == init.self_name:
                    if isinstance(n.value, ast.Dict) and not n.value.keys:
                        self.storage = d[1]
                    elif const_value(n.value) == 0 and self.cursor is None:
                        self.cursor = d[1]
        if self.cursor is None and self.storage is not None:
            # the cursor by its role: the one field the methods advance by one and look up in the storage (it may start at a
            # constructor argument instead of the literal 0)
            adv = set()
            for m in cls.methods.values():
                if m.name == "__init__" or m.self_name is None:
                    continue
                for n in walk_own(m.node):
                    if isinstance(n, ast.AugAssign) and isinstance(n.op, ast.Add) and const_value(n.value) == 1:
                        d = dotted(n.target)
                        if d and len(d) == 2 and d[0] == m.self_name:
                            adv.add(d[1])
            if len(adv) == 1:
                self.cursor = next(iter(adv))
        if self.storage is None or self.cursor is None:
            raise AnalysisError(f"{cls.short}: storage dict / cursor not discoverable from __init__")


class _Emit(Client):
    """emit/advance typestate, see DESIGN.md appendix C.

    state = (pending delete: None|'cursor'|'var:<name>', pending advance: None|'cursor'|'late',
             cursor-in-storage guard holds, serial == cursor known: None|True|False, stored?)
    """

    def __init__(self, bf: BufferFacts, func: Func, emit_kind: str, serial_param: Optional[str], value_param: Optional[str]):
        self.bf, self.func, self.emit_kind = bf, func, emit_kind
        self.serial, self.value = serial_param, value_param
        self.problems: List[Tuple[int, str]] = []
        self.emits = 0

    def should_inline(self, func, call, ctx):
        return False

    def _is_cursor(self, e, ctx) -> bool:
        # the cursor field, or a local that was bound to it and is still current (`expected = self._waiting_for`, cursor not
        # written since: the snapshots are dropped at every write of the cursor)
        if isinstance(e, ast.Name) and (ctx.func.qual, e.id) in getattr(self, "snaps", ()):
            return True
        return dotted(e) == (ctx.func.self_name, self.bf.cursor)

    def _is_storage(self, e, ctx) -> bool:
        return dotted(e) == (ctx.func.self_name, self.bf.storage)

    def classify(self, call, ctx: Ctx):
        if self.emit_kind == "print" and isinstance(call.func, ast.Attribute) and ctx.scope.is_self(call.func.value) \
                and call.func.attr in _print_helpers(self.bf.cls):
            return "emit"
        return None

    def refine(self, test, state, ctx):
        pd, pa, guard, isnext, stored = state
        if isinstance(test, ast.UnaryOp) and isinstance(test.op, ast.Not):
            t_, f_ = self.refine(test.operand, state, ctx)
            return f_, t_
        # `if keys:` / `if len(keys) > 0:` where keys is the list an emission loop of this function walks: once something was
        # emitted (an advance is owed) the list is known to be non-empty
        nm = test.id if isinstance(test, ast.Name) else None
        if nm is None and isinstance(test, ast.Compare) and len(test.ops) == 1 and isinstance(test.left, ast.Call) \
                and src(test.left.func) == "len" and test.left.args and isinstance(test.left.args[0], ast.Name) \
                and isinstance(test.ops[0], (ast.Gt, ast.NotEq)) and const_value(test.comparators[0]) == 0:
            nm = test.left.args[0].id
        if nm is not None and pa is not None:
            walked = {n.iter.id for n in ast.walk(ctx.func.node) if isinstance(n, ast.For) and isinstance(n.iter, ast.Name)}
            if nm in walked:
                return (state,), ()
        if isinstance(test, ast.Compare) and len(test.ops) == 1:
            op, a, b = test.ops[0], test.left, test.comparators[0]
            # item = storage.get(cursor, SENTINEL);  `item is not SENTINEL`  is  `cursor in storage`
            if isinstance(op, (ast.Is, ast.IsNot)) and isinstance(a, ast.Name):
                gd = self._get_with_default(a, ctx)
                if gd is not None and src(gd[1]) == src(b) and self._is_cursor(gd[0], ctx) and not (isinstance(b, ast.Constant) and b.value is None):
                    present, absent = (pd, pa, True, isnext, stored), (pd, pa, False, isnext, stored)
                    return ((present,), (absent,)) if isinstance(op, ast.IsNot) else ((absent,), (present,))
            if isinstance(op, ast.In) and self._is_cursor(a, ctx) and self._is_storage(b, ctx):
                return ((pd, pa, True, isnext, stored),), ((pd, pa, False, isnext, stored),)
            if isinstance(op, ast.NotIn) and self._is_cursor(a, ctx) and self._is_storage(b, ctx):
                return ((pd, pa, False, isnext, stored),), ((pd, pa, True, isnext, stored),)
            if isinstance(op, (ast.Eq, ast.NotEq)) and self.serial is not None:
                names = {src(a), src(b)}
                if self.serial in names and any(self._is_cursor(x, ctx) for x in (a, b)):
                    t = (pd, pa, guard, True, stored)
                    f = (pd, pa, guard, False, stored)
                    return ((t,), (f,)) if isinstance(op, ast.Eq) else ((f,), (t,))
        return (state,), (state,)

    def _get_with_default(self, name: ast.Name, ctx):
        """(key expr, default expr) when every definition of the local is `storage.get(key, default)` with one key / default"""
        fl = getattr(ctx.func.node, "_flow", None)
        if fl is None:
            from ..flow import Flow
            fl = ctx.func.node._flow = Flow(ctx.func.node)
        defs = list(fl.defs_of(name))
        if not defs:
            return None
        out = set()
        for d_ in defs:
            v = d_.value
            if not (isinstance(v, ast.Call) and isinstance(v.func, ast.Attribute) and v.func.attr == "get" and self._is_storage(v.func.value, ctx)
                    and len(v.args) == 2 and not v.keywords):
                return None
            out.add((src(v.args[0]), src(v.args[1])))
        if len(out) != 1:
            return None
        v = defs[0].value
        return v.args[0], v.args[1]

    def _stored_item(self, name: ast.Name, ctx):
        """the subscript `storage[k]` a local stands for, or None"""
        fl = getattr(ctx.func.node, "_flow", None)
        if fl is None:
            from ..flow import Flow
            fl = ctx.func.node._flow = Flow(ctx.func.node)
        ex_ = fl.expand(name)
        if isinstance(ex_, ast.Subscript) and self._is_storage(ex_.value, ctx):
            return ex_
        gd = self._get_with_default(name, ctx)
        if gd is not None:
            # item = storage.get(k, <sentinel>), used under `item is not <sentinel>`: the stored item under k
            sub = ast.Subscript(value=ast.Attribute(value=ast.Name(id=ctx.func.self_name, ctx=ast.Load()), attr=self.bf.storage, ctx=ast.Load()),
                                slice=gd[0], ctx=ast.Load())
            return ast.copy_location(sub, name)
        # for k, v in [sorted(] storage.items() [, ...)]:  v is storage[k]
        for lp in ast.walk(ctx.func.node):
            if isinstance(lp, ast.For) and isinstance(lp.target, ast.Tuple) and len(lp.target.elts) == 2 \
                    and all(isinstance(x, ast.Name) for x in lp.target.elts) and lp.target.elts[1].id == name.id:
                it_ = fl.expand(lp.iter) if isinstance(lp.iter, ast.Name) else lp.iter      # a named, sorted snapshot
                while isinstance(it_, ast.Call) and src(it_.func) in ("sorted", "list", "tuple") and it_.args:
                    it_ = it_.args[0]
                    if isinstance(it_, ast.Name):
                        it_ = fl.expand(it_)
                if isinstance(it_, ast.Call) and isinstance(it_.func, ast.Attribute) and it_.func.attr == "items" \
                        and self._is_storage(it_.func.value, ctx) and any(x is name for x in ast.walk(lp)):
                    sub = ast.Subscript(value=it_.func.value, slice=ast.Name(id=lp.target.elts[0].id, ctx=ast.Load()), ctx=ast.Load())
                    return ast.copy_location(sub, name)
        return None

    def _emit(self, value_expr, node, state, ctx):
        pd, pa, guard, isnext, stored = state
        self.emits += 1
        if pd is not None or pa == "cursor":
            self.problems.append((node.lineno, "an item is emitted while the previous emission has not been completed "
                                               "(its key not deleted / the cursor not advanced): double or stale emission"))
        # what is emitted?  a local that holds storage[k] (taken by a look-up, or the value half of a walk over storage.items())
        # reads as storage[k]
        if isinstance(value_expr, ast.Name):
            value_expr = self._stored_item(value_expr, ctx) or value_expr
        if isinstance(value_expr, ast.Subscript) and self._is_storage(value_expr.value, ctx):
            k = value_expr.slice
            if self._is_cursor(k, ctx):
                if not guard:
                    self.problems.append((node.lineno, "storage[cursor] is emitted without a dominating `cursor in storage` test"))
                return (("cursor", "cursor", guard, isnext, stored),)
            if isinstance(k, ast.Name):
                return ((f"var:{k.id}", "late", guard, isnext, stored),)
            self.problems.append((node.lineno, f"emits storage[{src(k)}]: key is neither the cursor nor a loop variable"))
            return (state,)
        if isinstance(value_expr, ast.Name) and value_expr.id in getattr(self, "popped", set()):
            # the item was taken out of the storage by pop(): nothing left to delete, the cursor must advance
            return ((None, "cursor", guard, isnext, stored),)
        if isinstance(value_expr, ast.Name) and value_expr.id == self.value and not getattr(self, "value_rebound", False):
            if isnext is not True:
                self.problems.append((node.lineno, "the incoming value is emitted on a path where its serial is not known to "
                                                   "equal the cursor: emitted before its predecessors"))
            return ((None, "cursor", guard, isnext, stored),)
        self.problems.append((node.lineno, f"emits `{src(value_expr)}`, which is neither a stored item nor the incoming value"))
        return (state,)

    def event(self, kind, node, state, ctx: Ctx):
        pd, pa, guard, isnext, stored = state
        if not hasattr(self, "snaps"):
            self.snaps = set()
        if kind == "store" and isinstance(node, ast.Name):
            av = assigned_value(node)
            self.snaps.discard((ctx.func.qual, node.id))
            if av is not None and dotted(av) == (ctx.func.self_name, self.bf.cursor):
                self.snaps.add((ctx.func.qual, node.id))
            # x = storage.pop(cursor[, default])  /  while x := storage.pop(cursor, None)
            if isinstance(av, ast.Call) and isinstance(av.func, ast.Attribute) and av.func.attr == "pop" \
                    and self._is_storage(av.func.value, ctx) and av.args and self._is_cursor(av.args[0], ctx):
                par = getattr(node, "_parent", None)
                if isinstance(par, ast.NamedExpr) and len(av.args) >= 2:
                    loop = par
                    while loop is not None and not isinstance(loop, (ast.While, ast.If, ast.stmt)):
                        loop = getattr(loop, "_parent", None)
                    if isinstance(loop, (ast.While, ast.If)) and any(x is par for x in ast.walk(loop.test)):
                        self.problems.append((node.lineno, f"the drain is guarded by a test of the popped *value* `{node.id}` (pop with the "
                                              f"default {src(av.args[1])}) instead of by `cursor in storage`: an item that is falsy or equal "
                                              f"to the default ('' / 0 / None) is taken out of the storage but neither emitted nor counted, "
                                              f"and its successors are held back forever"))
                # the same written without the assignment expression (what N41 makes of it):
                #   x = storage.pop(cursor, default);  if x is None / not x: break        (or a loop / if test on x right behind it)
                st_ = par
                if isinstance(st_, ast.Assign) and len(av.args) >= 2:
                    blk_ = None
                    up_ = getattr(st_, "_parent", None)
                    for fld_ in ("body", "orelse", "finalbody"):
                        b_ = getattr(up_, fld_, None)
                        if isinstance(b_, list) and st_ in b_:
                            blk_ = b_
                    nxt_ = blk_[blk_.index(st_) + 1] if blk_ and blk_.index(st_) + 1 < len(blk_) else None
                    tests_ = [nxt_.test] if isinstance(nxt_, (ast.If, ast.While)) else []
                    if isinstance(up_, ast.While) and blk_ is up_.body:
                        tests_.append(up_.test)
                    if any(isinstance(x_, ast.Name) and x_.id == node.id for t_ in tests_ for x_ in ast.walk(t_)):
                        self.problems.append((node.lineno, f"the drain is guarded by a test of the popped *value* `{node.id}` (pop with the "
                                              f"default {src(av.args[1])}) instead of by `cursor in storage`: an item that is falsy or equal "
                                              f"to the default ('' / 0 / None) is taken out of the storage but neither emitted nor counted, "
                                              f"and its successors are held back forever"))
                self.popped = getattr(self, "popped", set()) | {node.id}
                if len(av.args) == 1 and not guard:
                    self.problems.append((node.lineno, "storage.pop(cursor) without a dominating `cursor in storage` test"))
                return (state,)
            if node.id == self.value:
                self.value_rebound = True
        if kind == "subscript" and isinstance(node, ast.Subscript) and self._is_storage(node.value, ctx) and self._is_cursor(node.slice, ctx):
            # EAFP: a look-up of storage[cursor] inside `try ... except KeyError` that completes proves the cursor is stored
            p_ = getattr(node, "_parent", None)
            while p_ is not None and not isinstance(p_, (ast.FunctionDef, ast.AsyncFunctionDef)):
                if isinstance(p_, ast.Try) and any(h.type is None or src(h.type).split(".")[-1] in ("KeyError", "LookupError", "Exception")
                                                   for h in p_.handlers) and any(x is node for b_ in p_.body for x in ast.walk(b_)):
                    return ((pd, pa, True, isnext, stored),)
                p_ = getattr(p_, "_parent", None)
        if kind == "yield" and self.emit_kind == "yield":
            return self._emit(node.value, node, state, ctx)
        if kind == "emit":
            return self._emit(node.args[0] if node.args else None, node, state, ctx)
        if kind == "del" and isinstance(node, ast.Subscript) and self._is_storage(node.value, ctx):
            k = node.slice
            kk = "cursor" if self._is_cursor(k, ctx) else f"var:{k.id}" if isinstance(k, ast.Name) else "?"
            if pd is None:
                self.problems.append((node.lineno, f"`del storage[{src(k)}]` without a preceding emission of that item: the item is lost"))
            elif pd != kk:
                self.problems.append((node.lineno, f"`del storage[{src(k)}]` deletes another key than the one just emitted"))
            if pd == "cursor" and pa != "cursor":
                self.problems.append((node.lineno, "the cursor was advanced before the emitted key was deleted: the wrong key is deleted"))
            return ((None, pa, False, isnext, stored),)
        if kind in ("aug", "store"):
            tgt = node.target if kind == "aug" else node
            if dotted(tgt) == (ctx.func.self_name, self.bf.cursor):
                self.snaps.clear()
                if kind == "aug" and not (isinstance(node.op, ast.Add) and const_value(node.value) == 1):
                    self.problems.append((node.lineno, f"cursor updated by `{src(node)}` instead of += 1"))
                npa = None if pa in ("cursor", "late") else pa
                if pd == "cursor":
                    self.problems.append((node.lineno, "the cursor is advanced before the emitted key is deleted"))
                return ((pd, npa, False, isnext, stored),)
            if kind == "store" and isinstance(tgt, ast.Subscript) and self._is_storage(tgt.value, ctx):
                st = getattr(tgt, "_parent", None)
                val = assigned_value(tgt)
                ok = isinstance(tgt.slice, ast.Name) and tgt.slice.id == self.serial and isinstance(val, ast.Name) \
                    and val.id == self.value
                if not ok:
                    self.problems.append((node.lineno, f"`{src(st) if st is not None else src(tgt)}` does not store the incoming "
                                                       f"value under the incoming serial"))
                return ((pd, pa, guard, isnext, True),)
        if kind == "loophead":
            if pd is not None:
                self.problems.append((getattr(node, "lineno", 0), "loop iterates again while the emitted key is still stored: the item is emitted twice"))
            if pa == "cursor":
                self.problems.append((getattr(node, "lineno", 0), "loop iterates again without advancing the cursor past the emitted item"))
        return (state,)


def _run_emit(prog, rep: Report, bf: BufferFacts, f: Func, kind: str, role: str, serial=None, value=None,
              need_store_when_not_next=False, scenario=""):
    rep.fn(f)
    client = _Emit(bf, f, kind, serial, value)
    it = Interp(prog, client)
    ex = it.run(f, {(None, None, False, None, False)}, bf.cls)
    rep.count("abstract_states", len(it.states_seen))
    finals = ex.normal | ex.ret
    probs = list(client.problems)
    for s in finals:
        pd, pa, guard, isnext, stored = s
        if pd is not None:
            probs.append((f.node.lineno, "a normal exit is reached with the emitted key still stored"))
        if pa is not None:
            probs.append((f.node.lineno, "a normal exit is reached without writing the cursor after an emission"))
        if need_store_when_not_next and isnext is False and not stored:
            probs.append((f.node.lineno, "an out-of-order item is neither emitted nor stored: it is lost"))
        if need_store_when_not_next and isnext is None:
            probs.append((f.node.lineno, "no test of the incoming serial against the cursor"))
    if it.unrecognised:
        rep.unrec("C15.R1", f, role, "; ".join(it.unrecognised))
        return
    if client.emits == 0:
        rep.unrec("C15.R1", f, role, "no emission found")
        return
    uniq = sorted(set(probs))
    rep.check("C15.R1", f, role, not uniq, f"{client.emits} emission site(s): each followed by deletion of the emitted key and "
              "a cursor write before the next emission / exit", "; ".join(m for _, m in uniq), scenario=scenario,
              line=uniq[0][0] if uniq else None)


def run(prog: Program, rep: Report):
    rep.attempt(lambda: r1_emit(prog, rep))
    rep.attempt(lambda: r2_observers(prog, rep))
    rep.attempt(lambda: r3_reset(prog, rep))
    rep.attempt(lambda: r4_ring(prog, rep))
    rep.attempt(lambda: r5_ring_slots(prog, rep))
    rep.attempt(lambda: r6_generic(prog, rep))


def r1_emit(prog, rep: Report):
    rep.rule("C15.R1", "emit/advance typestate: an emission of the item stored under the cursor (or, in flush, under the loop "
             "key) is followed, before the next emission and before normal exit, by the deletion of that key and a cursor "
             "write; the drain loop is guarded by `cursor in storage`; an out-of-order item is stored and not emitted",
             floor=4)
    buf = prog.cls("Buffer", BUF_MOD)
    pb = prog.cls("PrintBuffer", BUF_MOD)
    bfb, bfp = BufferFacts(prog, buf), BufferFacts(prog, pb)
    _run_emit(prog, rep, bfb, prog.method(buf, "__iter__"), "yield", "drain",
              scenario="b = Buffer(); b(1,'B'); b(0,'A'); list(b) == ['A','B'] and list(b) == []: a missing del/advance emits "
                       "'A' again on the next drain or never reaches 'B'")
    # Buffer.__call__ stores the item under its serial
    call = prog.method(buf, "__call__")
    rep.fn(call)
    i, x = call.params[1], call.params[2]
    stores = [n for n in walk_own(call.node) if isinstance(n, ast.Assign) and isinstance(n.targets[0], ast.Subscript)
              and dotted(n.targets[0].value) == (call.self_name, bfb.storage)]
    good = len(stores) == 1 and src(stores[0].targets[0].slice) == i and src(stores[0].value) == x
    rep.check("C15.R1", call, "store", good, f"self.{bfb.storage}[{i}] = {x}",
              "__call__ does not store the item under its serial number",
              scenario="items are emitted under the wrong serial: imap yields chunks in the wrong order")
    pr = prog.method_raw(pb, "print")
    _run_emit(prog, rep, bfp, pr, "print", "print", serial=pr.params[1], value=pr.params[2], need_store_when_not_next=True,
              scenario="p.print(1,'B'); p.print(0,'A') must print A then B exactly once each")
    _run_emit(prog, rep, bfp, prog.method_raw(pb, "flush"), "print", "flush",
              scenario="p.print(2,'C'); p.flush(); p.flush() prints C twice if the key is not deleted, and waiting_for must "
                       "move past the flushed serials")
    # flush iterates the stored keys in ascending order
    fl = prog.method_raw(pb, "flush")
    loops = [n for n in walk_own(fl.node) if isinstance(n, ast.For)]
    from ..flow import Flow
    it0 = Flow(fl.node).expand(loops[0].iter) if len(loops) == 1 else None      # keys = sorted(...); for k in keys
    asc = len(loops) == 1 and isinstance(it0, ast.Call) and src(it0.func) == "sorted" \
        and not any(k.arg == "reverse" and const_value(k.value) for k in it0.keywords) \
        and f"self.{bfp.storage}" in src(it0)
    rep.check("C15.R1", fl, "flush:ascending", asc, "flush walks sorted(stored keys)",
              "flush does not iterate the stored serials in ascending order",
              scenario="p.print(3,'D'); p.print(2,'C'); p.flush() prints D before C")


def _print_helpers(cls: Cls):
    """private methods of the buffer class that wrap the builtin print"""
    out = set()
    for name, f in cls.methods.items():
        if any(isinstance(c, ast.Call) and isinstance(c.func, ast.Name) and c.func.id == "print" for c in walk_own(f.node)) \
                and name not in ("print", "flush", "clear"):
            out.add(name)
    return out


def _ring_slots_field(prog) -> str:
    """the slot array of the ring: the field written element-wise with the new element in put()"""
    c = prog.cls("CircularBuffer", RING_MOD)
    p = prog.method(c, "put")
    for n in walk_own(p.node):
        if isinstance(n, ast.Assign) and isinstance(n.targets[0], ast.Subscript) and src(n.value) == p.params[1]:
            d = dotted(n.targets[0].value)
            if d and len(d) == 2:
                return d[1]
    raise AnalysisError("CircularBuffer.put does not write the element into a slot array")


def r2_observers(prog, rep: Report):
    rep.rule("C15.R2", "observers: waiting_for returns the cursor; len is the len of the storage dict", floor=4)
    for cname in ("Buffer", "PrintBuffer"):
        c = prog.cls(cname, BUF_MOD)
        bf = BufferFacts(prog, c)
        w = prog.method(c, "waiting_for")
        ln = prog.method(c, "__len__")
        rep.fn(w, ln)
        ok = any(dotted(r.value) == (w.self_name, bf.cursor) for r in returns_of(w.node) if r.value is not None)
        rep.check("C15.R2", w, "waiting_for", ok, f"returns self.{bf.cursor}", "waiting_for does not return the cursor",
                  scenario="waiting_for differs from the number of items emitted")
        ok = any(isinstance(r.value, ast.Call) and src(r.value.func) == "len" and r.value.args
                 and dotted(r.value.args[0]) == (ln.self_name, bf.storage) for r in returns_of(ln.node))
        rep.check("C15.R2", ln, "len", ok, f"len(self.{bf.storage})", "__len__ is not the number of items held back",
                  scenario="imap's flow control compares len(buffer) with the results bound: a wrong len pauses forever or never")


def _init_values(prog, c: Cls) -> Dict[str, ast.expr]:
    init = prog.method(c, "__init__")
    out = {}
    for n in walk_own(init.node):
        if isinstance(n, ast.Assign) and len(n.targets) == 1:
            d = dotted(n.targets[0])
            if d and len(d) == 2 and d[0] == init.self_name:
                out[d[1]] = n.value
    return out


def _mutated_fields(c: Cls) -> Set[str]:
    out = set()
    for name, f in c.methods.items():
        if name == "__init__" or f.self_name is None:
            continue
        for n in walk_own(f.node):
            tg = n.targets if isinstance(n, (ast.Assign, ast.Delete)) else [n.target] if isinstance(n, ast.AugAssign) else []
            for t in tg:
                base = t.value if isinstance(t, ast.Subscript) else t
                d = dotted(base)
                if d and len(d) == 2 and d[0] == f.self_name:
                    out.add(d[1])
    return out


class _Resets(Client):
    """state = frozenset of fields assigned on this path"""

    def should_inline(self, func, call, ctx):
        return False

    def event(self, kind, node, state, ctx):
        if kind == "store" and isinstance(node, ast.Attribute) and ctx.scope.is_self(node.value):
            return (state | {node.attr},)
        return (state,)


def reset_agreement(prog, rep: Report, rule: str, c: Cls, method: str, exempt: Dict[str, str], scenario: str):
    init = _init_values(prog, c)
    f = prog.method(c, method)
    rep.fn(f)
    state_fields = sorted(_mutated_fields(c) & set(init))
    all_init, mutated_all = dict(init), set(_mutated_fields(c))
    resets = {}
    from ..util import iter_stores
    for t, val, st_ in iter_stores(f.node):
        d = dotted(t)
        if d and len(d) == 2 and d[0] == f.self_name and val is not None:
            resets[d[1]] = val
    it = Interp(prog, _Resets())
    ex = it.run(f, {frozenset()}, c)
    finals = ex.normal | ex.ret
    always = set.intersection(*[set(s_) for s_ in finals]) if finals else set()
    for fld in state_fields:
        if fld in resets and fld not in always and fld not in exempt:
            rep.viol(rule, f, f"reset:{fld}", f"{method}() restores self.{fld} only on some of its paths (an early exit skips the reset)",
                     scenario=scenario)
            resets.pop(fld)
            init = {k: v for k, v in init.items() if k != fld}
    state_fields = [x for x in state_fields if x in init]
    for fld in state_fields:
        if fld in exempt:
            rep.ok(rule, f, f"reset:{fld}", f"exempt: {exempt[fld]}", nontrivial=False)
            continue
        if fld not in resets:
            rep.viol(rule, f, f"reset:{fld}", f"{method}() does not restore self.{fld} (initialised to `{src(init[fld])}`, "
                     f"mutated elsewhere)", scenario=scenario)
        else:
            same = norm(resets[fld]) == norm(init[fld])
            if not same:
                # `self._waiting_for = self._start` where _start keeps, unchanged since the constructor, the very value the
                # constructor gave the state field (`self._start = start; self._waiting_for = start`)
                dv = dotted(resets[fld])
                if dv and len(dv) == 2 and dv[0] == f.self_name and dv[1] in all_init and dv[1] not in mutated_all \
                        and norm(all_init[dv[1]]) == norm(init[fld]):
                    same = True
            rep.check(rule, f, f"reset:{fld}", same, f"self.{fld} = {src(resets[fld])} as in __init__",
                      f"{method}() sets self.{fld} = {src(resets[fld])}, __init__ sets {src(init[fld])}", scenario=scenario)


def r3_reset(prog, rep: Report):
    rep.rule("C15.R3", "reset agreement: Buffer.flush, PrintBuffer.clear and CircularBuffer.clear restore every state field "
             "(fields mutated outside __init__) to its __init__ value", floor=6)
    reset_agreement(prog, rep, "C15.R3", prog.cls("Buffer", BUF_MOD), "flush", {},
                    "b(0,'A'); list(b); b.flush(); b(0,'X'): the buffer must accept serial 0 again and emit only 'X'")
    reset_agreement(prog, rep, "C15.R3", prog.cls("PrintBuffer", BUF_MOD), "clear", {},
                    "after clear() the buffer must wait for serial 0 and hold nothing")
    reset_agreement(prog, rep, "C15.R3", prog.cls("CircularBuffer", RING_MOD), "clear",
                    {_ring_slots_field(prog): "stale slots are unreachable once the size is 0 (index guard, C15.R4)"},
                    "put 1,2,3; clear(); put 9: the buffer must present exactly [9]")


def r4_ring(prog, rep: Report):
    rep.rule("C15.R4", "ring bounds: __getitem__ raises IndexError unless 0 <= i < len (ordering abstraction over i, 0, len), "
             "the guard dominates the subscript; put writes the slot at the write offset, then advances it, and grows the "
             "size only while size < capacity", floor=3)
    c = prog.cls("CircularBuffer", RING_MOD)
    g = prog.method_view(c, "__getitem__")
    rep.fn(g)
    i = g.params[1]
    size_field = None
    ln = prog.method(c, "__len__")
    for r in returns_of(ln.node):
        d = dotted(r.value) if r.value is not None else None
        if d and len(d) == 2:
            size_field = d[1]
    # one run of the look-up per ordering of (i, 0, len): where the guard sits (first statement, helper, two guard clauses) does
    # not matter, only what the method does for that ordering: IndexError exactly when i < 0 or i >= len
    from ..symenv import SymClient, run_sym
    from ..paths import strip_versions
    g0 = prog.resolve(c, "__getitem__")
    slots_f = _ring_slots_field(prog)

    class _Guard(SymClient):
        def __init__(s_, env_):
            super().__init__()
            s_.w = env_
            s_.undecided = []
            s_.slot_reads = 0
            s_._ver = 0

        def should_inline(s_, func, call, ctx):
            return func.cls is not None and not func.cls.is_external and func.name != "__init__"

        def refine(s_, test, state, ctx):
            s_._ver = state[1]
            return super().refine(test, state, ctx)

        def _val(s_, t):
            t = strip_versions(t)
            if t == ("p", i):
                return s_.w[i]
            if t == ("c", 0):
                return s_.w["zero"]
            if t in (("call", "len", (("self",),)), ("attr", ("self",), size_field), ("mcall", "__len__", ("self",), ())):
                return s_.w["len"]
            return None

        def decide(s_, term, node, env, user, ctx):
            if term[0] == "cmp" and term[1] in ("Lt", "LtE", "Gt", "GtE", "Eq", "NotEq"):
                a, b = s_._val(term[2]), s_._val(term[3])
                if a is not None and b is not None:
                    return {"Lt": a < b, "LtE": a <= b, "Gt": a > b, "GtE": a >= b, "Eq": a == b, "NotEq": a != b}[term[1]]
            s_.undecided.append(src(node))
            flagged = s_.pack(env, s_._ver, "undecided")
            return ((flagged,), (flagged,))

        def on(s_, kind, node, env, ver, user, ctx):
            if kind == "subscript" and isinstance(node, ast.Subscript):
                b_ = strip_versions(s_.sym(node.value, env, ver, ctx))
                if b_ == ("attr", ("self",), slots_f):
                    s_.slot_reads += 1
            return None
    W = [w for w in weak_orderings([i, "zero", "len"]) if w["zero"] <= w["len"]]
    bad, undecided, unrec_msgs = [], [], []
    for env_ in W:
        cl_ = _Guard(env_)
        it_, ex_ = run_sym(prog, cl_, g0, c)
        if it_.unrecognised:
            unrec_msgs += it_.unrecognised
            continue
        want_raise = env_[i] < env_["zero"] or env_[i] >= env_["len"]
        outs = {("raise:" + str(nm), st_[2] == "undecided") for st_, nm in ex_.exc} | \
               {("return", st_[2] == "undecided") for st_ in ex_.ret | ex_.normal}
        wrong = [o for o in outs if (o[0] == "raise:IndexError") != want_raise]
        if wrong and all(u for _, u in wrong):
            undecided.append((env_, cl_.undecided[:1]))
        elif wrong:
            bad.append((env_, sorted(o for o, u in wrong if not u)))
    rep.count("orderings_evaluated", len(W))
    if unrec_msgs:
        rep.unrec("C15.R4", g, "index-guard", "; ".join(sorted(set(unrec_msgs))))
    elif bad:
        env_, outs_ = bad[0]
        rep.viol("C15.R4", g, "index-guard", f"for the ordering {env_} of (index, 0, len) the look-up ends with {outs_} instead of "
                 f"{'IndexError' if (env_[i] < env_['zero'] or env_[i] >= env_['len']) else 'the item'}: it does not raise IndexError "
                 "exactly when i < 0 or i >= len", witness=[b[0] for b in bad[:4]],
                 scenario="an index equal to len (or negative) passes the guard and returns a slot that is not one of "
                          "the last min(k, c) items; CircularBuffer(3) with one item: b[1] or b[-1] returns a stale/None slot")
    elif undecided:
        rep.unrec("C15.R4", g, "index-guard", f"for the ordering {undecided[0][0]} the outcome depends on a test that is not about "
                  f"(index, 0, len): {undecided[0][1]}")
    else:
        rep.ok("C15.R4", g, "index-guard", f"IndexError exactly when i < 0 or i >= len ({len(W)} orderings of index, 0, len; every path)")
    # put
    p = prog.method_view(c, "put")
    rep.fn(p)
    e = p.params[1]
    off_field = None
    stmts = [st for st in p.node.body if not (isinstance(st, ast.Expr) and isinstance(st.value, ast.Constant))]
    write_i = adv_i = None
    for k, st in enumerate(stmts):
        if isinstance(st, ast.Assign) and isinstance(st.targets[0], ast.Subscript) and src(st.value) == e:
            sl_ = st.targets[0].slice
            if isinstance(sl_, ast.Name):
                sl_ = Flow(p.node).expand(sl_)             # write_at = self._offset; self._buffer[write_at] = e
            d = dotted(sl_)
            if d and len(d) == 2 and d[0] == p.self_name:
                off_field = d[1]
                write_i = k
    for k, st in enumerate(stmts):
        if off_field and isinstance(st, (ast.Assign, ast.AugAssign)):
            tgt = st.targets[0] if isinstance(st, ast.Assign) else st.target
            if dotted(tgt) == (p.self_name, off_field):
                adv_i = k
    rep.check("C15.R4", p, "put:write-then-advance", write_i is not None and adv_i is not None and write_i < adv_i,
              f"slot at self.{off_field} written, then the offset advanced",
              "put does not write the slot at the write offset before advancing the offset",
              scenario="the newest item lands in the wrong slot: list(buffer) is not the tail of the put history")
    # saturation, decided on every path of put() for both orderings the invariant allows (size < capacity, size == capacity):
    # the size grows by one in the first case and stays in the second
    cap_fields = {dotted(n)[1] for n in ast.walk(p.node) if isinstance(n, ast.Attribute) and dotted(n) and len(dotted(n)) == 2
                  and dotted(n)[0] == p.self_name and dotted(n)[1] not in (size_field, off_field)}

    class _Sat(Client):
        """state = ('LT' | 'EQ', change of the size so far)"""
        problems: List[str] = []

        def should_inline(self_, func, call, ctx):
            return func.cls is c

        def _term(self_, env):
            def term2(x):
                if dotted(x) == (p.self_name, size_field) or src(x) == f"len({p.self_name})":
                    return env["size"]
                d = dotted(x)
                if d and len(d) == 2 and d[0] == p.self_name and d[1] in cap_fields:
                    return env["cap"]
                if isinstance(x, ast.Call) and src(x.func) == "len" and x.args and dotted(x.args[0]) and dotted(x.args[0])[0] == p.self_name:
                    return env["cap"]
                return None
            return term2

        def refine(self_, test, state, ctx):
            o, dlt = state
            if dlt != 0:
                return (state,), (state,)
            env = {"size": 0, "cap": 1} if o == "LT" else {"size": 1, "cap": 1}
            try:
                r = eval_order(test, env, self_._term(env))
            except NotAFormula:
                return (state,), (state,)
            return ((state,), ()) if r else ((), (state,))

        def event(self_, kind, node, state, ctx):
            o, dlt = state
            if kind == "aug" and dotted(node.target) == (p.self_name, size_field):
                cst = const_value(node.value)
                if isinstance(cst, int) and isinstance(node.op, (ast.Add, ast.Sub)):
                    return ((o, dlt + (cst if isinstance(node.op, ast.Add) else -cst)),)
                self_.problems.append(src(node))
            if kind == "store" and isinstance(node, ast.Attribute) and dotted(node) == (p.self_name, size_field):
                v = assigned_value(node)
                if isinstance(v, ast.Call) and src(v.func) == "min" and len(v.args) == 2:
                    # min(size + 1, capacity): +1 below the capacity, unchanged at the capacity
                    parts = [src(a) for a in v.args]
                    if f"{p.self_name}.{size_field} + 1" in parts or f"1 + {p.self_name}.{size_field}" in parts:
                        return ((o, dlt + (1 if o == "LT" else 0)),)
                if isinstance(v, ast.BinOp) and isinstance(v.op, ast.Add) and dotted(v.left) == (p.self_name, size_field) and const_value(v.right) == 1:
                    return ((o, dlt + 1),)
                self_.problems.append(src(getattr(node, "_parent", node)))
            return (state,)
    from ..util import assigned_value
    sat = _Sat()
    sat.problems = []
    it_ = Interp(prog, sat)
    ex_ = it_.run(p, {("LT", 0), ("EQ", 0)}, c)
    finals_ = ex_.normal | ex_.ret
    rep.count("orderings_evaluated", 2)
    if sat.problems or it_.unrecognised:
        rep.unrec("C15.R4", p, "put:saturation", f"size update not recognised: {(sat.problems + it_.unrecognised)[:2]}")
    else:
        bad_ = sorted({st_ for st_ in finals_ if st_ != ("LT", 1) and st_ != ("EQ", 0)})
        rep.check("C15.R4", p, "put:saturation", not bad_ and bool(finals_), "the size grows by one below the capacity and stays at the capacity, on every path",
                  "put changes the size by " + ", ".join(f"{d_:+d} when size {'<' if o_ == 'LT' else '=='} capacity" for o_, d_ in bad_),
                  scenario="CircularBuffer(2): three puts give len 3 and b[2] reads a wrapped slot (or the size stops one short: "
                           "len(buffer) != min(k, c))")


# ---------------------------------------------------------------------------------------------- R5
def _linear(e: ast.expr, sym) -> Optional[Dict[str, int]]:
    """linear form {symbol: coefficient, '1': constant} of an integer expression; ``sym`` maps leaf expressions to symbols"""
    k = sym(e)
    if k is not None:
        return {k: 1}
    if isinstance(e, ast.Constant) and isinstance(e.value, int) and not isinstance(e.value, bool):
        return {"1": e.value}
    if isinstance(e, ast.UnaryOp) and isinstance(e.op, (ast.USub, ast.UAdd)):
        a = _linear(e.operand, sym)
        if a is None:
            return None
        return {k2: (-v if isinstance(e.op, ast.USub) else v) for k2, v in a.items()}
    if isinstance(e, ast.BinOp) and isinstance(e.op, (ast.Add, ast.Sub)):
        a, b = _linear(e.left, sym), _linear(e.right, sym)
        if a is None or b is None:
            return None
        out = dict(a)
        for k2, v in b.items():
            out[k2] = out.get(k2, 0) + (v if isinstance(e.op, ast.Add) else -v)
        return out
    if isinstance(e, ast.BinOp) and isinstance(e.op, ast.Mult):
        for x, y in ((e.left, e.right), (e.right, e.left)):
            if isinstance(x, ast.Constant) and isinstance(x.value, int):
                a = _linear(y, sym)
                if a is not None:
                    return {k2: v * x.value for k2, v in a.items()}
    return None


def _norm_lin(d: Dict[str, int]) -> Dict[str, int]:
    return {k: v for k, v in d.items() if v != 0}


def r5_ring_slots(prog, rep: Report):
    rep.rule("C15.R5", "ring slot agreement (writer/reader): put writes slot W and advances W by one modulo the capacity; "
             "__getitem__(i) reads slot W - size + i modulo the capacity (linear normal form over the fields in their roles, so the "
             "newest item is the last slot written and the oldest is `size` writes back); a guarded alternative read is not decided",
             floor=2)
    c = prog.cls("CircularBuffer", RING_MOD)
    g, p = prog.method_view(c, "__getitem__"), prog.method_view(c, "put")
    rep.fn(g, p)
    slots = _ring_slots_field(prog)
    # roles
    W = None
    for n in walk_own(p.node):
        if isinstance(n, ast.Assign) and isinstance(n.targets[0], ast.Subscript) and dotted(n.targets[0].value) == (p.self_name, slots):
            d = dotted(n.targets[0].slice)
            if d and len(d) == 2:
                W = d[1]
    S = None
    ln = prog.method(c, "__len__")
    for r in returns_of(ln.node):
        d = dotted(r.value) if r.value is not None else None
        if d and len(d) == 2:
            S = d[1]
    if W is None or S is None:
        rep.unrec("C15.R5", p, "roles", "write offset / size fields not identifiable")
        return

    def is_cap(e, f) -> bool:
        t = src(e)
        return t in (f"{f.self_name}.max_size", f"len({f.self_name}.{slots})")

    def mk_sym(f, idx_param=None):
        def sym(e):
            d = dotted(e)
            if d and len(d) == 2 and d[0] == f.self_name and d[1] in (W, S):
                return "W" if d[1] == W else "S"
            if idx_param and isinstance(e, ast.Name) and e.id == idx_param:
                return "i"
            return None
        return sym
    # writer: W = (W + 1) % cap
    adv = None
    for t, val, st in __import__("sa.util", fromlist=["iter_stores"]).iter_stores(p.node):
        if dotted(t) == (p.self_name, W):
            adv = val if val is not None else st
    ok = False
    if adv is not None and isinstance(adv, ast.expr):
        from ..util import expand_all as _ea
        from ..flow import Flow as _Fl
        adv = _ea(adv, _Fl(p.node))                  # `position = self._w + 1; self._w = position % cap` (an inlined wrap helper)
    if isinstance(adv, ast.BinOp) and isinstance(adv.op, ast.Mod) and is_cap(adv.right, p):
        lin = _linear(adv.left, mk_sym(p))
        ok = lin is not None and _norm_lin(lin) == {"W": 1, "1": 1}
    elif isinstance(adv, ast.AugAssign):
        ok = False
    if not ok and not (isinstance(adv, ast.BinOp) and isinstance(adv.op, ast.Mod)):
        # increment-and-wrap:  self.W += 1;  if self.W == cap (>=): self.W = 0      -- the same step without the modulo
        from ..flow import Flow as _Fl2
        from ..util import expand_all as _ea2
        _pfl = _Fl2(p.node)
        body = p.node.body
        wrap_ok = None
        for i_, st_ in enumerate(body):
            if isinstance(st_, ast.AugAssign) and dotted(st_.target) == (p.self_name, W):
                nxt_ = body[i_ + 1] if i_ + 1 < len(body) else None
                inc1 = isinstance(st_.op, ast.Add) and const_value(st_.value) == 1
                if inc1 and isinstance(nxt_, ast.If) and not nxt_.orelse and isinstance(nxt_.test, ast.Compare) and len(nxt_.test.ops) == 1 \
                        and isinstance(nxt_.test.ops[0], (ast.Eq, ast.GtE)) and dotted(nxt_.test.left) == (p.self_name, W) \
                        and is_cap(_ea2(nxt_.test.comparators[0], _pfl), p) and len(nxt_.body) == 1 and isinstance(nxt_.body[0], ast.Assign) \
                        and dotted(nxt_.body[0].targets[0]) == (p.self_name, W) and const_value(nxt_.body[0].value, None) == 0:
                    others_ = [x for x in ast.walk(p.node) if isinstance(x, (ast.Assign, ast.AugAssign)) and x is not st_ and x is not nxt_.body[0]
                               and any(dotted(t_) == (p.self_name, W) for t_ in (x.targets if isinstance(x, ast.Assign) else [x.target]))]
                    wrap_ok = not others_
                else:
                    wrap_ok = wrap_ok or False
        if wrap_ok:
            rep.ok("C15.R5", p, "advance", f"self.{W} += 1, wrapped to 0 when it reaches the capacity")
        elif adv is None or wrap_ok is None:
            rep.unrec("C15.R5", p, "advance", "how put advances the write offset was not recognised")
        else:
            rep.unrec("C15.R5", p, "advance", f"the write offset is advanced by `{src(adv) if isinstance(adv, ast.AST) else '?'}` without a "
                      "modulo or a recognised wrap to 0")
    else:
      rep.check("C15.R5", p, "advance", ok, f"self.{W} = (self.{W} + 1) % capacity",
                f"put does not advance the write offset by exactly one modulo the capacity: `{src(adv) if adv is not None else '?'}`",
                scenario="after a wrap-around the newest item is written over the wrong slot: list(buffer) is not the tail of the put history")
    # reader
    idx = g.params[1]
    reads = [n for n in walk_own(g.node) if isinstance(n, ast.Subscript) and isinstance(n.ctx, ast.Load)
             and dotted(n.value) == (g.self_name, slots)]
    if not reads:
        rep.unrec("C15.R5", g, "read-slot", "no read of the slot array")
        return
    from ..util import expand_all
    from ..flow import Flow
    gflow = Flow(g.node)
    for rd in reads:
        e = expand_all(rd.slice, gflow, keep=(idx,))          # named intermediate values (`oldest`, `position`) read as their definitions
        has_mod = isinstance(e, ast.BinOp) and isinstance(e.op, ast.Mod) and is_cap(e.right, g)
        inner = e.left if has_mod else e
        lin = _linear(inner, mk_sym(g, idx))
        guarded = False
        p_ = getattr(rd, "_parent", None)
        first_guard = None
        while p_ is not None and p_ is not g.node:
            if isinstance(p_, (ast.If, ast.IfExp)):
                first_guard = p_
            p_ = getattr(p_, "_parent", None)
        # the index guard of R4 is the first statement; any *other* enclosing test makes this a conditional alternative
        body0 = [st for st in g.node.body if not (isinstance(st, ast.Expr) and isinstance(st.value, ast.Constant))]
        guarded = first_guard is not None and first_guard is not (body0[0] if body0 else None)
        if lin is None:
            rep.unrec("C15.R5", g, "read-slot", f"slot expression `{src(e)}` is not linear in (write offset, size, index)", rd.lineno)
            continue
        good = _norm_lin(lin) == {"W": 1, "S": -1, "i": 1}
        if good:
            rep.ok("C15.R5", g, "read-slot", f"reads slot (W - size + i){' % capacity' if has_mod else ''}: `{src(e)}`")
        elif guarded:
            rep.unrec("C15.R5", g, "read-slot", f"alternative slot expression `{src(e)}` under a guard: its agreement with the writer "
                      f"depends on an invariant this rule does not decide", rd.lineno)
        else:
            rep.viol("C15.R5", g, "read-slot", f"`{src(e)}` is not (write offset - size + index) modulo the capacity: normal form "
                     f"{_norm_lin(lin)}", scenario="CircularBuffer(3): put 1,2,3,4 then buffer[0] must be 2 (the oldest of the last "
                                                     "three); a different slot expression returns another element", line=rd.lineno)


def r6_generic(prog, rep: Report):
    """the generic analyses instantiated on the three buffer classes"""
    from .memo import public_entry_points, rule_derived_state
    from .ownership import rule_no_class_state
    buf = prog.cls("Buffer", BUF_MOD)
    pb = prog.cls("PrintBuffer", BUF_MOD)
    ring = prog.cls("CircularBuffer", "windpyutils.structures.circular_buffer")
    rule_no_class_state(prog, rep, "C15.R7", [buf, pb, ring])
    from .mixins import rule_fresh_iterator, rule_mixin_surface
    rule_mixin_surface(prog, rep, "C15.R8", [ring])
    rule_fresh_iterator(prog, rep, "C15.R9", [buf, ring])
    bfb, bfp = BufferFacts(prog, buf), BufferFacts(prog, pb)
    rep.rule("C15.R6", "derived state of the buffers is refreshed with its source: storage and cursor (ring: slots, write offset and "
             "size) are the primary state; any other field written outside the constructor and read somewhere is re-assigned or "
             "cleared on every path of every public operation that changes them", floor=3)
    rule_derived_state(prog, rep, "C15.R6", buf, {bfb.storage, bfb.cursor}, public_entry_points(prog, buf), declare=False)
    rule_derived_state(prog, rep, "C15.R6", pb, {bfp.storage, bfp.cursor}, public_entry_points(prog, pb), declare=False)
    init = prog.method(ring, "__init__")
    ring_fields = {dotted(t)[1] for n in walk_own(init.node) if isinstance(n, ast.Assign) for t in n.targets
                   if dotted(t) and len(dotted(t)) == 2 and dotted(t)[0] == init.self_name}
    mutated = set()
    for f in ring.methods.values():
        if f.name == "__init__" or f.self_name is None:
            continue
        for n in walk_own(f.node):
            tg = n.target if isinstance(n, ast.AugAssign) else (n.targets[0] if isinstance(n, ast.Assign) else None)
            while isinstance(tg, ast.Subscript):
                tg = tg.value
            d = dotted(tg) if tg is not None else None
            if d and len(d) == 2 and d[0] == f.self_name and d[1] in ring_fields:
                mutated.add(d[1])
    rule_derived_state(prog, rep, "C15.R6", ring, mutated, public_entry_points(prog, ring), config=ring_fields - mutated, declare=False)
    # the reorder buffers: the pending dict and the next expected serial are the primary state; a remembered smallest held serial, a
    # cached length ... must follow every store, emission and flush
    for bf in (bfb, bfp):
        rule_derived_state(prog, rep, "C15.R6", bf.cls, {bf.storage, bf.cursor}, public_entry_points(prog, bf.cls), declare=False)
