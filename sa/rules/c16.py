"""C16 — ImmutIntervalMap returns the value of the one interval containing the key (DESIGN.md §6, partial)."""
from __future__ import annotations

import ast
from typing import Dict, List, Optional

from ..flow import Flow
from ..model import AnalysisError, Func, Program, walk_own
from ..orderings import NotAFormula, eval_order, weak_orderings
from ..report import Report
from ..resolve import const_value, dotted, kwarg
from ..absint import Client, Interp, RaiseExc
from ..symenv import SymClient, run_sym
from ..util import before, calls_in, ext_name, returns_of, src
from .c10 import relation_formula_check

MAPS_MOD = "windpyutils.structures.maps"


def run(prog: Program, rep: Report):
    im = prog.cls("ImmutIntervalMap", MAPS_MOD)
    rep.rule("C16.R1", "the Overlaps relation is exact for closed intervals (all weak orderings of four endpoints with "
             "start <= end)", floor=1)
    rep.attempt(lambda: relation_formula_check(prog, rep, "C16.R1", "SpanSetOverlapsEqRelation"))
    rep.attempt(lambda: r2_construction(prog, rep, im))
    rep.attempt(lambda: r3_lookup(prog, rep, im))
    rep.attempt(lambda: r4_derived(prog, rep, im))
    # disjointness is decided by building a SpanSet: the constructor's "keep a span iff no span kept so far matches" clause (and the
    # argument roles of its relation calls) is part of this property
    from .c10 import SPAN_MOD, r2_sites
    rep.attempt(lambda: r2_sites(prog, rep, prog.cls("SpanSet", SPAN_MOD), rule="C16.R5", floor=3))
    from .memo import public_entry_points, rule_derived_state
    from .ownership import rule_no_class_state
    roles = interval_roles(prog.method_view(im, "__init__"))
    prim = {v.split(".", 1)[1] for v in roles.values() if v.startswith("self.")}
    rep.attempt(lambda: rule_derived_state(prog, rep, "C16.R6", im, prim, public_entry_points(prog, im),
                       what="the map is immutable: a remembered key or value (a one-entry look-up memo) is derived from the look-up "
                            "argument, not from the map, and is handled by the look-up rules; this instance only guards fields derived "
                            "from the arrays"))
    rep.attempt(lambda: rule_no_class_state(prog, rep, "C16.R7", [im]))
    from .mixins import rule_fresh_iterator
    rep.attempt(lambda: rule_fresh_iterator(prog, rep, "C16.R8", [im]))
    from .ownership import rule_snapshot
    rep.attempt(lambda: rule_snapshot(prog, rep, "C16.R9", im))


def _raises(stmts) -> Optional[str]:
    for st in stmts:
        if isinstance(st, ast.Raise) and st.exc is not None:
            x = st.exc.func if isinstance(st.exc, ast.Call) else st.exc
            return src(x)
    return None


def r2_construction(prog, rep: Report, im):
    rep.rule("C16.R2", "construction: every interval passes a `start > end -> raise KeyError` test before it is recorded; "
             "disjointness is decided by a span set built with the Overlaps relation and duplicate check on, from "
             "index-aligned starts/ends, followed by `len(span_set) != len(mapping) -> raise KeyError`", floor=4)
    f = prog.method_view(im, "__init__")
    rep.fn(f)
    mapping = f.params[1]
    loop = None
    keys_only = False
    vflow_ = Flow(f.node)
    for n in walk_own(f.node):
        if not isinstance(n, ast.For):
            continue
        it_ = vflow_.expand(n.iter) if isinstance(n.iter, ast.Name) else n.iter
        while isinstance(it_, ast.Call) and src(it_.func) in ("list", "tuple") and len(it_.args) == 1 and not it_.keywords:
            it_ = it_.args[0]                       # items = list(mapping.items())
        if src(it_) == f"{mapping}.items()" and isinstance(n.target, ast.Tuple) and len(n.target.elts) == 2 \
                and isinstance(n.target.elts[0], ast.Tuple) and len(n.target.elts[0].elts) == 2:
            loop = n
            break
        if src(it_) in (mapping, f"{mapping}.keys()") and isinstance(n.target, ast.Tuple) and len(n.target.elts) == 2 \
                and all(isinstance(x, ast.Name) for x in n.target.elts):
            loop, keys_only = n, True               # for start, end in mapping: a loop over the intervals alone (validation only)
            break
    if loop is None:
        rep.unrec("C16.R2", f, "validity", "loop `for (start, end), value in mapping.items()` not found")
        return
    if keys_only:
        s, e = (x.id for x in loop.target.elts)
        val = "?"
    else:
        s, e = (x.id for x in loop.target.elts[0].elts)
        val = src(loop.target.elts[1])
    # validity test: first statement of the loop raises KeyError iff start > end
    first = loop.body[0]
    if not (isinstance(first, ast.If) and _raises(first.body)):
        rep.viol("C16.R2", f, "validity", "the interval loop does not start with a raising validity test",
                 scenario="ImmutIntervalMap({(5, 1): 'x'}) is accepted", line=loop.lineno)
    else:
        W = weak_orderings([s, e])
        try:
            bad = [w for w in W if eval_order(first.test, w) != (w[s] > w[e])]
        except NotAFormula as ex:
            bad = None
            rep.unrec("C16.R2", f, "validity", f"validity test not a comparison of start and end: {ex}")
        if bad is not None:
            rep.count("orderings_evaluated", len(W))
            exc = _raises(first.body)
            rep.check("C16.R2", f, "validity", not bad and exc == "KeyError",
                      f"`{src(first.test)}` raises KeyError exactly when start > end (3 orderings)",
                      (f"validity test `{src(first.test)}` is wrong for the ordering {bad[0]}" if bad else
                       f"invalid interval raises {exc}, not KeyError"),
                      scenario="a degenerate single-point interval (5, 5) is rejected, or a reversed interval is accepted",
                      line=first.lineno)
    _early_exits(prog, rep, f, mapping, loop)
    # recording: starts/ends/values appended in the same iteration from (start, end, value)
    apps = {}
    for st in loop.body:
        if isinstance(st, ast.Expr) and isinstance(st.value, ast.Call) and isinstance(st.value.func, ast.Attribute) \
                and st.value.func.attr == "append" and len(st.value.args) == 1:
            apps[src(st.value.func.value)] = src(st.value.args[0])
    starts_arr = [k for k, v in apps.items() if v == s]
    ends_arr = [k for k, v in apps.items() if v == e]
    vals_arr = [k for k, v in apps.items() if v == val]
    if not (starts_arr and ends_arr and vals_arr):
        r_ = interval_roles(f)
        if r_.get("$comprehension") and all(k_ in r_ for k_ in ("starts", "ends", "values")):
            # the three arrays are built by one unfiltered comprehension each over mapping.items(): aligned by construction
            starts_arr, ends_arr, vals_arr = [r_["starts"]], [r_["ends"]], [r_["values"]]
    if not starts_arr and not ends_arr and not vals_arr:
        # the intervals are not kept as three parallel arrays at all (one record per interval, a dict ...): another representation,
        # which this clause does not read
        rep.unrec("C16.R2", f, "recording", f"start / end / value of an interval are not recorded in three arrays ({apps or 'no append in the loop'})")
        return
    rep.check("C16.R2", f, "recording", len(starts_arr) == 1 and len(ends_arr) == 1 and len(vals_arr) == 1,
              f"start -> {starts_arr}, end -> {ends_arr}, value -> {vals_arr} appended in the same iteration",
              f"start/end/value of an interval are not appended to three arrays in the same iteration: {apps}",
              scenario="starts, ends and values get misaligned: lookup returns another interval's value")
    if not (starts_arr and ends_arr):
        return
    # span set
    ss_calls = [c for c in calls_in(f.node) if src(c.func) == "SpanSet"]
    if len(ss_calls) != 1:
        rep.unrec("C16.R2", f, "disjointness", f"expected one SpanSet(...) construction, found {len(ss_calls)}")
        return
    c = ss_calls[0]
    a_starts = kwarg(c, "starts", 0)
    a_ends = kwarg(c, "ends", 1)
    rel = kwarg(c, "eq_relation", 3)
    nodup = kwarg(c, "force_no_dup_check", 2)
    from ..util import alias_classes
    same = alias_classes(f.node, f.self_name)        # names bound by the inliner (parameters, returned tuples) name the same lists
    def _uncopy(e):
        while isinstance(e, ast.Call) and src(e.func) in ("list", "tuple") and len(e.args) == 1 and not e.keywords:
            e = e.args[0]                   # a copy of the list holds the same starts / ends in the same order
        return e
    a_starts, a_ends = (_uncopy(a_starts) if a_starts is not None else None), (_uncopy(a_ends) if a_ends is not None else None)
    good = a_starts is not None and a_ends is not None and same(a_starts, starts_arr[0]) and same(a_ends, ends_arr[0])
    if not good and a_starts is not None and a_ends is None and src(a_starts) in (f"{mapping}.keys()", mapping, f"list({mapping}.keys())", f"list({mapping})"):
        good = True            # the keys *are* the (start, end) pairs, in the order the arrays were filled
    if isinstance(rel, ast.Name):
        rel = Flow(f.node).expand(rel)              # overlaps = SpanSetOverlapsEqRelation()
    rel_ok = rel is not None and isinstance(rel, ast.Call) and src(rel.func) == "SpanSetOverlapsEqRelation"
    dup_ok = nodup is None or const_value(nodup) is False
    rep.check("C16.R2", f, "disjointness:spanset", good and rel_ok and dup_ok,
              "SpanSet(starts, ends, eq_relation=Overlaps) with the duplicate check on",
              ("span set not built from the recorded starts/ends" if not good else
               f"span set built with relation {src(rel) if rel is not None else 'default Exact'}" if not rel_ok else
               "span set built with force_no_dup_check: overlapping intervals are never merged, so the length test "
               "cannot detect them"),
              scenario="ImmutIntervalMap({(1, 5): 'a', (3, 8): 'b'}) is accepted although the intervals share points",
              line=c.lineno)
    # length comparison raising KeyError
    ss_var = None
    p = getattr(c, "_parent", None)
    if isinstance(p, ast.Assign) and isinstance(p.targets[0], ast.Name):
        ss_var = p.targets[0].id
    found = False
    from ..util import expand_all
    flow = Flow(f.node)
    _FLIP = {ast.Eq: ast.NotEq, ast.NotEq: ast.Eq, ast.Lt: ast.GtE, ast.GtE: ast.Lt, ast.Gt: ast.LtE, ast.LtE: ast.Gt}
    for n in walk_own(f.node):
        if not isinstance(n, ast.If):
            continue
        test0 = expand_all(n.test, flow, keep=(ss_var,) if ss_var else ()) if isinstance(n.test, (ast.Name, ast.UnaryOp)) else n.test
        if isinstance(test0, ast.UnaryOp) and isinstance(test0.op, ast.Not) and isinstance(test0.operand, ast.Compare) \
                and len(test0.operand.ops) == 1 and type(test0.operand.ops[0]) in _FLIP:
            # `all_disjoint = len(span_set) == len(mapping); if not all_disjoint:` - two lengths, so the negation is the flipped operator
            c0 = test0.operand
            test0 = ast.copy_location(ast.Compare(left=c0.left, ops=[_FLIP[type(c0.ops[0])]()], comparators=c0.comparators), n.test)
        if isinstance(test0, ast.Compare) and len(test0.ops) == 1:
            n_test = test0
            # named intermediate values (`expected = len(mapping)`) read as their definitions
            left_s = src(expand_all(n_test.left, flow, keep=(ss_var,) if ss_var else ()))
            right_s = src(expand_all(n_test.comparators[0], flow, keep=(ss_var,) if ss_var else ()))
            sides = {left_s, right_s}

            def _counts_intervals(txt: str) -> bool:
                if txt == f"len({mapping})":
                    return True
                if txt.startswith("len(") and txt.endswith(")"):
                    inner = txt[4:-1]
                    return any(same(inner, arr) for arr in (starts_arr[0], ends_arr[0], vals_arr[0] if vals_arr else starts_arr[0]))
                return False
            ss_len = f"len({ss_var})" if ss_var is not None else f"len({src(expand_all(c, flow))})"     # len(SpanSet(...)) written in place
            if ss_len in sides and any(_counts_intervals(x) for x in sides):
                found = True
                op = n_test.ops[0]
                exc = _raises(n.body)
                ok = isinstance(op, (ast.NotEq, ast.Lt, ast.Gt)) and exc == "KeyError"
                if isinstance(op, ast.Lt) and left_s != ss_len:
                    ok = False
                if isinstance(op, ast.Gt) and left_s == ss_len:
                    ok = False
                rep.check("C16.R2", f, "disjointness:length-test", ok,
                          f"`{src(n.test)}` raises KeyError when spans were merged",
                          f"length test `{src(n.test)}` / exception {exc} does not reject merged (overlapping) intervals with KeyError",
                          scenario="overlapping intervals are accepted or rejected with the wrong exception type", line=n.lineno)
    if not found:
        uses = [n for n in walk_own(f.node) if isinstance(n, ast.Name) and n.id == ss_var and isinstance(n.ctx, ast.Load)]
        if ss_var is not None and uses:
            rep.unrec("C16.R2", f, "disjointness:length-test", f"the span set `{ss_var}` is used, but not in a recognised comparison of "
                      "its length with the number of intervals")
        else:
            rep.viol("C16.R2", f, "disjointness:length-test", "the span set is never compared with the number of intervals",
                     scenario="overlapping intervals are accepted")


def _early_exits(prog, rep: Report, f: Func, mapping: str, loop: ast.For):
    """no construction by-passes the checks: a `return` of __init__ that is not behind the validity loop is evaluated for maps of
    0, 1, 2 and 3 intervals (its guards read as formulas over len(mapping)); taking it with >= 1 interval skips the start <= end test
    (and, with >= 2, the disjointness test)"""
    from .cachefam import _eval_small
    # every way out of __init__ (a `return`, or the end of the body) with the tests passed on the way and whether the validity loop
    # was executed on that way; the arms of an if/else are followed separately (a fast path may be written as a guard clause with a
    # `return` or as the first arm of an if/else that holds the rest of the constructor in its else)
    exits = []          # (guards, passed the loop, line, undecidable construct or None)

    def contains(st, what) -> bool:
        return any(x is what for x in ast.walk(st))

    def follow(stmts, guards, passed, cont):
        for i, st in enumerate(stmts):
            if st is loop or (not isinstance(st, ast.If) and contains(st, loop)):
                passed = True
                continue
            if isinstance(st, ast.Return):
                exits.append((guards, passed, st.lineno, None))
                return
            if isinstance(st, ast.Raise):
                return
            if isinstance(st, ast.If):
                rest = stmts[i + 1:]
                follow(st.body, guards + [(st.test, True)], passed, [rest] + cont)
                follow(st.orelse, guards + [(st.test, False)], passed, [rest] + cont)
                return
            if any(isinstance(x, ast.Return) for x in ast.walk(st)) and not isinstance(st, (ast.FunctionDef, ast.AsyncFunctionDef, ast.ClassDef)):
                for x in ast.walk(st):
                    if isinstance(x, ast.Return):
                        exits.append((guards, passed, x.lineno, type(st).__name__))
        if cont:
            follow(cont[0], guards, passed, cont[1:])
        else:
            exits.append((guards, passed, None, None))
    follow(list(f.node.body), [], False, [])
    early = [e for e in exits if not e[1]]
    if not early:
        rep.ok("C16.R2", f, "validated-exits", "no exit of __init__ ahead of the validity loop")
        return
    for guards0, _p, line0, undec0 in early:
        where = f"the `return` at line {line0}" if line0 is not None else "the end of an arm that does not hold the validity loop"
        guards = [(t, pol) for t, pol in guards0]
        if undec0 or not guards:
            rep.unrec("C16.R2", f, "validated-exits", f"{where} is reached ahead of the validity loop "
                      f"({'inside a ' + undec0 if undec0 else 'unconditional'})", line=line0)
            return
        taken, unknown = [], False
        for n in (0, 1, 2, 3):
            vals = []
            for t, pol in guards:
                t2 = _LenSubst(mapping, n).visit(ast.parse(src(t), mode="eval").body)
                v = _eval_small(t2, {})
                vals.append(None if v is None else (bool(v) == pol))
            if any(v is False for v in vals):
                continue
            if any(v is None for v in vals):
                unknown = True
                continue
            taken.append(n)
        bad = [n for n in taken if n >= 1]
        if bad:
            n = bad[0]
            rep.viol("C16.R2", f, "validated-exits", f"a map of {n} interval(s) is constructed through {where} "
                     f"(guard `{' and '.join(('' if pol else 'not ') + src(t) for t, pol in guards)}`) without "
                     + ("the start <= end test" if n == 1 else "the validity and disjointness tests"),
                     scenario="ImmutIntervalMap({(3, 2): 'x'}) constructs instead of raising KeyError", line=line0)
            return
        if unknown:
            rep.unrec("C16.R2", f, "validated-exits", f"cannot decide for which numbers of intervals {where} "
                      f"is taken (guards {[src(t) for t, _ in guards]})", line=line0)
            return
    rep.ok("C16.R2", f, "validated-exits", f"{len(early)} early exit(s), taken only by the empty map")


class _LenSubst(ast.NodeTransformer):
    """len(<mapping>) -> n;  `not <mapping>` / bare `<mapping>` as a truth value -> (n == 0) / (n != 0)"""

    def __init__(self, mapping, n):
        self.m, self.n = mapping, n

    def visit_Call(self, node):
        if isinstance(node.func, ast.Name) and node.func.id == "len" and len(node.args) == 1 and src(node.args[0]) == self.m:
            return ast.Constant(self.n)
        return self.generic_visit(node)

    def visit_Name(self, node):
        if node.id == self.m:
            return ast.Constant(self.n != 0)      # only reached in truth-value positions of a guard
        return node


def _fields_named_by(init: Func, local: str):
    """fields of self that are assigned the local (alone or inside a tuple assignment): `self._sortedEnds, self._idx = a, b`"""
    out = []
    for n in walk_own(init.node):
        if isinstance(n, ast.Assign) and len(n.targets) == 1:
            t, v = n.targets[0], n.value
            items = list(zip(t.elts, v.elts)) if isinstance(t, (ast.Tuple, ast.List)) and isinstance(v, (ast.Tuple, ast.List)) \
                and len(t.elts) == len(v.elts) else [(t, v)]
            for a, b in items:
                d = dotted(a)
                if isinstance(b, ast.Name) and b.id == local and d and len(d) == 2 and d[0] == init.self_name:
                    out.append(d[1])
    return out


def interval_roles(init: Func) -> Dict[str, str]:
    """which container of __init__ plays which part, found by what is appended to it:
    starts / ends / values   receive the start, the end and the value of `for (start, end), value in mapping.items()`;
    sorted / perm            receive the end and the original index of `for i, e in sorted(enumerate(<ends>), key=...)`.
    Values are source texts of the receivers (`self._interval_starts`, `interval_ends`, ...)."""
    roles: Dict[str, str] = {}
    for n in walk_own(init.node):
        if not isinstance(n, ast.For):
            continue
        appended = {}
        for st in ast.walk(n):
            if isinstance(st, ast.Call) and isinstance(st.func, ast.Attribute) and st.func.attr == "append" and len(st.args) == 1 \
                    and isinstance(st.args[0], ast.Name):
                appended[st.args[0].id] = src(st.func.value)
        t = n.target
        if isinstance(t, ast.Tuple) and len(t.elts) == 2 and isinstance(t.elts[0], ast.Tuple) and len(t.elts[0].elts) == 2 \
                and all(isinstance(x, ast.Name) for x in t.elts[0].elts) and isinstance(t.elts[1], ast.Name):
            a, b, v = t.elts[0].elts[0].id, t.elts[0].elts[1].id, t.elts[1].id
            for role, nm in (("starts", a), ("ends", b), ("values", v)):
                if nm in appended:
                    roles[role] = appended[nm]
        elif isinstance(t, ast.Tuple) and len(t.elts) == 2 and all(isinstance(x, ast.Name) for x in t.elts) \
                and isinstance(n.iter, ast.Call) and src(n.iter.func) == "sorted":
            i, e = t.elts[0].id, t.elts[1].id
            if e in appended:
                roles["sorted"] = appended[e]
            if i in appended:
                roles["perm"] = appended[i]
    # comprehension form:  <starts> = [start for (start, _), _ in mapping.items()]  (one unfiltered comprehension per array)
    for n in walk_own(init.node):
        if isinstance(n, ast.Assign) and len(n.targets) == 1 and isinstance(n.value, ast.ListComp) and len(n.value.generators) == 1 \
                and not n.value.generators[0].ifs and isinstance(n.value.elt, ast.Name):
            g = n.value.generators[0]
            t = g.target
            if isinstance(g.iter, ast.Call) and isinstance(g.iter.func, ast.Attribute) and g.iter.func.attr == "items" \
                    and isinstance(t, ast.Tuple) and len(t.elts) == 2:
                k, v = t.elts
                nm = n.value.elt.id
                if nm == "_":
                    continue
                if isinstance(k, ast.Tuple) and len(k.elts) == 2 and all(isinstance(x, ast.Name) for x in k.elts):
                    if k.elts[0].id == nm:
                        roles.setdefault("starts", src(n.targets[0]))
                    elif k.elts[1].id == nm:
                        roles.setdefault("ends", src(n.targets[0]))
                if isinstance(v, ast.Name) and v.id == nm:
                    roles.setdefault("values", src(n.targets[0]))
                roles.setdefault("$comprehension", "yes")
    # argsort form:  perm = sorted(range(len(<ends>)), key=<ends>.__getitem__ | lambda i: <ends>[i]);  sorted = [<ends>[i] for i in perm]
    if "perm" not in roles or "sorted" not in roles:
        a = argsort_construction(init)
        if a is not None:
            roles["perm"], roles["sorted"] = a["perm"], a["sorted"]
    # a local list that the constructor stores into a field afterwards (the filling loop may come from an inlined helper) is named
    # by that field
    for role, txt in list(roles.items()):
        if isinstance(txt, str) and txt.isidentifier():
            flds = _fields_named_by(init, txt)
            if len(flds) == 1:
                roles[role] = f"{init.self_name}.{flds[0]}"
    return roles


def argsort_construction(init: Func) -> Optional[Dict[str, object]]:
    """{'perm': text, 'sorted': text, 'from': text of the unsorted ends, 'ok': ascending stable argsort of the ends and the ends
    gathered through it} for the argsort way of building the two arrays, or None"""
    perm_t = src_t = None
    asc = False
    from ..util import iter_stores
    for t, v, st in iter_stores(init.node):
        if isinstance(v, ast.Call) and src(v.func) == "sorted" and len(v.args) == 1 and isinstance(v.args[0], ast.Call) \
                and src(v.args[0].func) == "range" and len(v.args[0].args) == 1 and isinstance(v.args[0].args[0], ast.Call) \
                and src(v.args[0].args[0].func) == "len" and v.args[0].args[0].args:
            base = src(v.args[0].args[0].args[0])
            key = next((k.value for k in v.keywords if k.arg == "key"), None)
            rev = next((k.value for k in v.keywords if k.arg == "reverse"), None)
            key_ok = (isinstance(key, ast.Attribute) and key.attr == "__getitem__" and src(key.value) == base) or \
                (isinstance(key, ast.Lambda) and isinstance(key.body, ast.Subscript) and src(key.body.value) == base
                 and key.args.args and src(key.body.slice) == key.args.args[0].arg)
            if key_ok:
                perm_t, src_t = src(t), base
                asc = rev is None or const_value(rev) is False
    if perm_t is None:
        return None
    sorted_t = None
    for t, v, st in iter_stores(init.node):
        if isinstance(v, ast.ListComp) and len(v.generators) == 1 and not v.generators[0].ifs and src(v.generators[0].iter) == perm_t \
                and isinstance(v.elt, ast.Subscript) and src(v.elt.value) == src_t and isinstance(v.generators[0].target, ast.Name) \
                and src(v.elt.slice) == v.generators[0].target.id:
            sorted_t = src(t)
    if sorted_t is None:
        return None
    return {"perm": perm_t, "sorted": sorted_t, "from": src_t, "ok": asc}


def r3_lookup(prog, rep: Report, im):
    rep.rule("C16.R3", "lookup: closed-interval idiom (bisect_left over the sorted ends, miss if index == len, miss if key < "
             "start of the candidate; both misses raise KeyError); candidate start and value are taken through the same "
             "permutation index; sorted ends and their permutation are built index-aligned", floor=5)
    f = prog.resolve(im, "__getitem__")
    init = prog.method_view(im, "__init__")
    rep.fn(f, init)
    key = f.params[1]
    # the look-up is read through symbolic values (sa/symenv.py): helpers are inlined by the engine, named intermediate values
    # and the arrangement of the tests do not matter.  First pass: which array is bisected, with which function
    disc = _Lookup(prog, None, {})
    it0, _ = run_sym(prog, disc, f, im)
    if it0.unrecognised:
        rep.unrec("C16.R3", f, "bisect", "; ".join(it0.unrecognised))
        return
    bis = sorted(disc.bisects)
    if len(bis) != 1:
        rep.unrec("C16.R3", f, "bisect", f"expected one bisect call, found {len(bis)}")
        return
    fn, bargs = bis[0]
    if len(bargs) != 2 or bargs[0][:2] != ("attr", ("self",)) or bargs[1] != ("p", key):
        rep.unrec("C16.R3", f, "bisect", f"bisect call shape not recognised: {fn}{bargs}")
        return
    sorted_arr = bargs[0][2]
    memo_fields = sorted(disc.stored_fields)
    # how the sorted array is built in __init__: for i, e in sorted(enumerate(X), key=lambda x: x[1])
    perm_arr, built_from, aligned = None, None, False
    for n in walk_own(init.node):
        if isinstance(n, ast.For) and isinstance(n.iter, ast.Call) and src(n.iter.func) == "sorted" and n.iter.args \
                and isinstance(n.iter.args[0], ast.Call) and src(n.iter.args[0].func) == "enumerate" \
                and isinstance(n.target, ast.Tuple) and len(n.target.elts) == 2:
            i_name, e_name = (x.id for x in n.target.elts)
            built_from = src(n.iter.args[0].args[0])
            k = kwarg(n.iter, "key")
            key_ok = isinstance(k, ast.Lambda) and isinstance(k.body, ast.Subscript) and const_value(k.body.slice) == 1 \
                and not any(kw.arg == "reverse" for kw in n.iter.keywords)
            apps = {}
            for st in n.body:
                if isinstance(st, ast.Expr) and isinstance(st.value, ast.Call) and isinstance(st.value.func, ast.Attribute) \
                        and st.value.func.attr == "append":
                    d = dotted(st.value.func.value)
                    if d and len(d) == 2:
                        apps[d[1]] = src(st.value.args[0])
                    elif d and len(d) == 1:
                        # a local list that is stored into a field afterwards (the loop may live in an inlined helper)
                        for fld_ in _fields_named_by(init, d[0]):
                            apps[fld_] = src(st.value.args[0])
            if apps.get(sorted_arr) == e_name:
                perm = [k2 for k2, v in apps.items() if v == i_name]
                perm_arr = perm[0] if perm else None
                aligned = key_ok and perm_arr is not None and len(n.body) == 2
    if perm_arr is None:
        a = argsort_construction(init)
        if a is not None and a["sorted"] == f"{init.self_name}.{sorted_arr}" and str(a["perm"]).startswith(init.self_name + "."):
            perm_arr, built_from, aligned = str(a["perm"]).split(".", 1)[1], str(a["from"]), bool(a["ok"])
    if perm_arr is None:
        # recognisably wrong: the permutation array is filled as  perm[<original index>] = <sorted position>  (the inverse)
        for n in walk_own(init.node):
            if isinstance(n, ast.For) and isinstance(n.iter, ast.Call) and "sorted(" in src(n.iter) and "enumerate(" in src(n.iter):
                names = [x.id for x in ast.walk(n.target) if isinstance(x, ast.Name)]
                for st in ast.walk(n):
                    if isinstance(st, ast.Assign) and isinstance(st.targets[0], ast.Subscript) and isinstance(st.targets[0].slice, ast.Name) \
                            and isinstance(st.value, ast.Name) and st.targets[0].slice.id in names and st.value.id in names \
                            and dotted(st.targets[0].value) and dotted(st.targets[0].value)[0] == init.self_name:
                        outer_enum = isinstance(n.iter, ast.Call) and src(n.iter.func) == "enumerate"
                        pos_name = names[0] if outer_enum else None
                        if pos_name and st.value.id == pos_name and st.targets[0].slice.id != pos_name:
                            rep.viol("C16.R3", init, "sorted-ends",
                                     f"`{src(st)}` stores the sorted position under the original index: that is the inverse of the "
                                     f"permutation the lookup needs (sorted position -> original index)",
                                     scenario="intervals given as [(5,5), (6,9.5), (1,3)]: the lookup picks another interval's start "
                                              "and value; every fixture of the suite happens to have a self-inverse order",
                                     line=st.lineno)
                            return
        rep.unrec("C16.R3", init, "sorted-ends", f"construction of self.{sorted_arr} and its permutation array not recognised")
        return
    roles = interval_roles(init)
    from ..util import alias_classes as _ac
    _same = _ac(init.node, init.self_name)
    if not roles.get("ends"):
        rep.unrec("C16.R3", init, "sorted-ends", "which container holds the interval ends was not recognised in the constructor")
    else:
      rep.check("C16.R3", init, "sorted-ends", aligned and (built_from == roles.get("ends") or (roles.get("ends") and built_from
                                                                                               and _same(built_from, roles.get("ends")))),
                f"self.{sorted_arr} / self.{perm_arr} built index-aligned from sorted(enumerate({built_from}), key=end)",
                f"self.{sorted_arr} / self.{perm_arr} are not built index-aligned and ascending by interval end from {built_from}",
                scenario="the bisect runs over an unsorted or misaligned array: keys inside an interval raise KeyError or "
                         "return another interval's value")
    inits = [val for t, val, st_ in __import__("sa.util", fromlist=["iter_stores"]).iter_stores(init.node)
             if dotted(t) == (init.self_name, sorted_arr) and val is not None]
    _fl = Flow(init.node)
    inits = [(_fl.expand(v) if isinstance(v, ast.Name) else v) for v in inits]            # a local list stored into the field
    plain = all(isinstance(v, ast.List) or (isinstance(v, ast.Call) and src(v.func) == "list") or isinstance(v, ast.ListComp) for v in inits)
    rep.check("C16.R3", init, "ends-container", bool(inits) and plain, f"self.{sorted_arr} is a plain list (ends stored as given)",
              f"self.{sorted_arr} is initialised as `{src(inits[0]) if inits else '?'}`: a typed container converts the interval ends "
              f"(e.g. array('d') rounds ints above 2**53 and Fractions), the key equal to such an end is no longer found",
              scenario="ImmutIntervalMap({(0, 9007199254740993): 'low'})[9007199254740993] raises KeyError")
    rep.check("C16.R3", f, "bisect", fn == "bisect.bisect_left",
              f"bisect_left(self.{sorted_arr}, key): smallest end >= key",
              f"{fn} over the sorted ends: a key equal to an interval end selects the next interval",
              scenario="m = ImmutIntervalMap({(1, 5): 'a', (7, 9): 'b'}); m[5] raises KeyError (5 is inside [1, 5])")
    if fn != "bisect.bisect_left":
        return
    names = {"sorted": sorted_arr, "perm": perm_arr,
             "starts": (roles.get("starts") or "self.?").split(".", 1)[1], "values": (roles.get("values") or "self.?").split(".", 1)[1]}
    # the arrays are written by the constructor only (else reads on both sides of a write must be kept apart)
    arrays = {names["sorted"], names["perm"], names["starts"], names["values"]}
    mutated = False
    for m_ in im.methods.values():
        if m_.name == "__init__" or m_.self_name is None:
            continue
        for n in walk_own(m_.node):
            d_ = dotted(n) if isinstance(n, ast.Attribute) else None
            if d_ and len(d_) == 2 and d_[0] == m_.self_name and d_[1] in arrays:
                par = getattr(n, "_parent", None)
                if isinstance(n.ctx, (ast.Store, ast.Del)) or (isinstance(par, ast.Subscript) and isinstance(par.ctx, (ast.Store, ast.Del))) \
                        or (isinstance(par, ast.Attribute) and par.attr in ("append", "insert", "pop", "remove", "clear", "extend", "sort", "reverse")):
                    mutated = True
    names["frozen"] = not mutated
    # one run per *world*: the map is empty / the key lies beyond the last end / before the candidate's start / on it / inside
    expect = {"empty": "KeyError", "beyond": "KeyError", "before": "KeyError", "on-start": "value", "inside": "value"}
    role_of = {"empty": "miss:beyond-last", "beyond": "miss:beyond-last", "before": "miss:before-start", "on-start": "candidate",
               "inside": "candidate"}
    verdicts: Dict[str, List] = {}
    # a one-entry memo (fields of the object that the look-up itself stores) is admitted under the invariant
    #     INV:  <key field> is None  or  (<key field> is a key found before and <value field> is its value),
    # assumed at entry and checked at every exit of every world, the raising ones included
    memo = None
    if memo_fields:
        probe = _Lookup(prog, "inside", names)
        probe.memo = ("?", "?")
        run_sym(prog, probe, f, im)
        kf = sorted({a for a, t in probe.memo_stores if t == "KEY"})
        vf = sorted({a for a, t in probe.memo_stores if t == "V"})
        other = sorted({a for a, t in probe.memo_stores if t not in ("KEY", "V", "NONE")})
        if len(kf) == 1 and len(vf) == 1 and set(memo_fields) == {kf[0], vf[0]} and not other:
            memo = (kf[0], vf[0])
        else:
            rep.unrec("C16.R3", f, "candidate", f"the look-up stores into fields of the map ({memo_fields}) that do not form a "
                      "(remembered key, remembered value) pair")
            return
    memo_bad: List[str] = []
    for world, want in expect.items():
        cl = _Lookup(prog, world, names)
        cl.memo = memo
        it, ex = run_sym(prog, cl, f, im)
        if memo is not None and not it.unrecognised:
            for st_ in list(ex.ret | ex.normal) + [s_ for s_, _ in ex.exc]:
                m = cl.memo_exit(st_)
                if m:
                    memo_bad.append(f"{WORLD_TEXT[world]}: {m}")
        rep.count("worlds_evaluated", 1)
        if it.unrecognised:
            verdicts.setdefault(role_of[world], []).append(("unrec", "; ".join(it.unrecognised)))
            continue
        outcomes = set()
        for st_ in ex.ret | ex.normal:
            t = cl.returned(st_)
            is_v = t == cl.V or (memo is not None and "memo-hit" in (st_[2] or ()) and t == ("attr", ("self",), memo[1], 0))
            outcomes.add((("value" if is_v else f"return of {_show(t)}"), "undecided" in (st_[2] or ())))
        for st_, nm in ex.exc:
            outcomes.add((nm or "an exception", "undecided" in (st_[2] or ())))
        wrong = sorted(o for o in outcomes if o[0] != want)
        if not outcomes:
            verdicts.setdefault(role_of[world], []).append(("unrec", f"no exit found in the world '{world}'"))
        elif not wrong:
            verdicts.setdefault(role_of[world], []).append(("ok", f"{world}: {want}"))
        elif all(u for _, u in wrong) and getattr(cl, "value_tests", None) and want == "value":
            verdicts.setdefault(role_of[world], []).append(("viol", f"{WORLD_TEXT[world]} the outcome depends on a test of the stored value "
                                                            f"(`{cl.value_tests[0]}`): a value that is None (or falsy) is reported as "
                                                            f"missing although its interval holds the key"))
        elif all(u for _, u in wrong):
            verdicts.setdefault(role_of[world], []).append(("unrec", f"in the world '{world}' the outcome depends on a test that is "
                                                            f"not about the key, the bisect index or the candidate: {cl.undecided[:2]}"))
        else:
            got = ", ".join(o for o, u in wrong if not u)
            verdicts.setdefault(role_of[world], []).append(("viol", f"{WORLD_TEXT[world]}: expected {want}, the look-up ends with {got}"))
    scen = {"miss:beyond-last": "a key greater than every interval end (or any key on the empty map) raises IndexError / returns "
                                "instead of raising KeyError",
            "miss:before-start": "m = ImmutIntervalMap({(1, 5): 'a'}); m[0] returns 'a' (the gap before an interval belongs to nobody), "
                                 "or m[1] raises KeyError (the start is inclusive)",
            "candidate": "the look-up returns the value of another interval, or raises for a key inside an interval"}
    if memo_bad:
        verdicts.setdefault("candidate", []).append(("viol", "the remembered (key, value) pair is left inconsistent " + sorted(set(memo_bad))[0]))
    for role in ("miss:beyond-last", "miss:before-start", "candidate"):
        vs = verdicts.get(role, [])
        bad = [m for k, m in vs if k == "viol"]
        un = [m for k, m in vs if k == "unrec"]
        if bad:
            rep.viol("C16.R3", f, role, "; ".join(bad), scenario=scen[role])
        elif un:
            rep.unrec("C16.R3", f, role, "; ".join(un))
        else:
            rep.ok("C16.R3", f, role, "; ".join(m for _, m in vs))


WORLD_TEXT = {"empty": "on the empty map", "beyond": "for a key greater than every interval end",
              "before": "for a key smaller than the start of the first interval whose end is >= key",
              "on-start": "for a key equal to the start of its interval", "inside": "for a key inside its interval"}


def _show(t) -> str:
    if not isinstance(t, tuple):
        return repr(t)
    if t[0] == "c":
        return repr(t[1])
    if t[0] == "attr":
        return f"{_show(t[1])}.{t[2]}"
    if t[0] == "sub":
        return f"{_show(t[1])}[{_show(t[2])}]"
    if t[0] == "self":
        return "self"
    if t[0] == "p":
        return t[1]
    if t[0] in ("call", "mcall"):
        return f"{t[1]}(..)"
    return t[0]


def _subterms(t):
    if isinstance(t, tuple):
        yield t
        for x in t[1:]:
            if isinstance(x, tuple):
                yield from _subterms(x)


def _show_deep(t) -> str:
    if not isinstance(t, tuple):
        return repr(t)
    if t[0] == "tuple":
        return "(" + ", ".join(_show_deep(x) for x in t[1:]) + ")"
    if t[0] == "elem":
        return f"<element of {_show_deep(t[1])}>"
    if t[0] == "idx":
        return "<position>"
    if t[0] == "sub":
        return f"{_show_deep(t[1])}[{_show_deep(t[2])}]"
    return _show(t)


class _IterYields(SymClient):
    def __init__(self):
        super().__init__()
        self.yields = set()

    def should_inline(self, func, call, ctx):
        return func.cls is not None and not func.cls.is_external and func.name != "__init__"

    def on(self, kind, node, env, ver, user, ctx):
        if kind == "yield" and isinstance(node, ast.Yield):
            self.yields.add(self.sym(node.value, env, ver, ctx))
        return None


class _ContainsPaths(Client):
    """state = (self[key] completed on this path, name of the exception handler the path is in)"""

    def __init__(self, key):
        self.key = key
        self.returns = set()

    def should_inline(self, func, call, ctx):
        return False

    def handler_entry(self, handler, trace_states, ctx):
        # the handler is entered by the look-up raising: from the states in front of it
        return {s_ for s_ in trace_states if not s_[0]} or trace_states

    def event(self, kind, node, state, ctx):
        looked, handler = state
        if kind in ("subscript", "proto_call") and isinstance(node, ast.Subscript) and ctx.scope.is_self(node.value) \
                and isinstance(node.slice, ast.Name) and node.slice.id == self.key:
            return ((True, handler),)
        if kind == "call" and isinstance(node, ast.Call) and isinstance(node.func, ast.Attribute) and node.func.attr == "__getitem__" \
                and ctx.scope.is_self(node.func.value):
            return ((True, handler),)
        if kind == "handler":
            nm = src(node.type) if node.type is not None else "BaseException"
            return ((looked, nm.split(".")[-1]),)
        if kind == "return":
            v = node.value
            val = v.value if isinstance(v, ast.Constant) else src(v) if v is not None else None
            self.returns.add((val, state))
        return (state,)


class _Lookup(SymClient):
    """ImmutIntervalMap.__getitem__ in one world (see r3_lookup); world None = discovery pass (every test undecided)"""

    def __init__(self, prog, world, names):
        super().__init__()
        self.P, self.world = prog, world
        self.bisects = set()
        self.undecided: List[str] = []
        me = ("self",)
        if names:
            self.S = ("attr", me, names["sorted"])
            self.PERM = ("attr", me, names["perm"])
            self.STARTS = ("attr", me, names["starts"])
            self.VALUES = ("attr", me, names["values"])
            if names.get("frozen"):
                self.frozen = {self.S, self.PERM, self.STARTS, self.VALUES}
        else:
            self.S = self.PERM = self.STARTS = self.VALUES = None
        self.V = None
        self.memo = None                  # (key field, value field) of a one-entry memo, ("?", "?") while probing
        self.memo_stores = set()

    def should_inline(self, func, call, ctx):
        return func.cls is not None and not func.cls.is_external and func.name != "__init__"

    def _entry(self, field):
        return ("attr", ("self",), field, 0)

    def memo_exit(self, state) -> Optional[str]:
        """None when the memo fields satisfy INV at this exit, else what is wrong"""
        env = dict(state[0])
        kf, vf = self.memo
        k = env.get(("h", kf), self._entry(kf))
        v = env.get(("h", vf), self._entry(vf))
        hit_world = self.world in ("on-start", "inside")
        flags = state[2] or ()
        key = ("p", self.root_params[1]) if len(self.root_params) > 1 else None
        if k == self._entry(kf) and v == self._entry(vf):
            return None
        if k == ("c", None):
            return None
        if k == key:
            if not hit_world:
                return f"self.{kf} remembers the key although the look-up fails (the next look-up of that key answers from self.{vf})"
            if v == self.V or (v == self._entry(vf) and "memo-hit" in flags):
                return None
            return f"self.{kf} is set to the key while self.{vf} is not the value found for it"
        if k == self._entry(kf) and "memo-hit" in flags and v == self.V:
            return None
        return f"self.{kf} / self.{vf} are changed to something that is not (key, value found)"

    # term classification ------------------------------------------------------------------------------------------------
    def _is_I(self, t):
        return isinstance(t, tuple) and t[0] == "call" and t[1].endswith("bisect_left") and len(t[2]) == 2 and t[2][0] == self.S

    def _is_C(self, t):
        return isinstance(t, tuple) and t[0] == "sub" and t[1] == self.PERM and self._is_I(t[2])

    def _role(self, t):
        if self._is_I(t):
            return "I"
        if isinstance(t, tuple) and t[0] == "call" and t[1] == "len" and len(t[2]) == 1 and t[2][0] in (self.S, self.PERM, self.STARTS, self.VALUES, ("self",)):
            return "LEN"
        if isinstance(t, tuple) and t[0] == "p" and t == ("p", self.root_params[1] if len(self.root_params) > 1 else "?"):
            return "KEY"
        if isinstance(t, tuple) and t[0] == "sub" and t[1] == self.STARTS and self._is_C(t[2]):
            return "START"
        if isinstance(t, tuple) and t[0] == "sub" and t[1] == self.S and t[2] == ("c", -1):
            return "LAST"
        if isinstance(t, tuple) and t[0] == "sub" and t[1] == self.S and self._is_I(t[2]):
            return "END"
        if t == ("c", 0):
            return "ZERO"
        return None

    def _order(self, a, b):
        """-1 / 0 / 1 / None: how the values of two roles compare in this world"""
        w = self.world
        hit = w in ("before", "on-start", "inside")
        tab = {
            ("I", "LEN"): 0 if w in ("empty", "beyond") else -1,
            ("LEN", "ZERO"): 0 if w == "empty" else 1,
            ("I", "ZERO"): 0 if w == "empty" else None,
            ("KEY", "START"): {"before": -1, "on-start": 0, "inside": 1}.get(w),
            ("KEY", "LAST"): 1 if w == "beyond" else None,
            ("KEY", "END"): None,
        }
        if (a, b) in tab:
            return tab[(a, b)]
        if (b, a) in tab and tab[(b, a)] is not None:
            return -tab[(b, a)]
        if (a, b) == ("KEY", "LAST") or (b, a) == ("KEY", "LAST"):
            return None
        return None

    def decide(self, term, node, env, user, ctx):
        if self.world is None:
            return None
        if self.memo is not None and self.memo[0] != "?":
            kf = self._entry(self.memo[0])
            key = ("p", self.root_params[1]) if len(self.root_params) > 1 else None
            if term[0] == "cmp" and term[1] in ("Eq", "NotEq") and {term[2], term[3]} == {kf, key}:
                # INV: the remembered key was found before, so it cannot equal a key that is in no interval
                if self.world not in ("on-start", "inside"):
                    return term[1] == "NotEq"
                hit = self.pack(env, 0, tuple(sorted(set(user or ()) | {"memo-hit"})))
                plain = self.pack(env, 0, user)
                return ((hit,), (plain,)) if term[1] == "Eq" else ((plain,), (hit,))
            if term[0] == "cmp" and term[1] in ("Is", "IsNot") and term[3] == ("c", None) and term[2] == kf:
                return ((self.pack(env, 0, user),), (self.pack(env, 0, user),))
        r = self._decide(term)
        if r is None:
            self.undecided.append(src(node))
            # a test of the candidate's *value* (against None, or as a truth value): the outcome of the look-up depends on what is stored
            t_ = term
            while isinstance(t_, tuple) and t_ and t_[0] == "not":
                t_ = t_[1]
            if t_ == self.V or (isinstance(t_, tuple) and t_ and t_[0] == "cmp" and t_[1] in ("Is", "IsNot", "Eq", "NotEq")
                                and ((t_[2] == self.V and t_[3] == ("c", None)) or (t_[3] == self.V and t_[2] == ("c", None)))):
                self.value_tests = getattr(self, "value_tests", []) + [src(node)]
            flagged = self.pack(env, 0, tuple(sorted(set(user or ()) | {"undecided"})))
            return ((flagged,), (flagged,))
        return r

    def _decide(self, term):
        w = self.world
        if term[0] == "not":
            r = self._decide(term[1])
            return None if r is None else (not r)
        if term[0] == "cmp":
            op, a, b = term[1], self._role(term[2]), self._role(term[3])
            if a is None or b is None:
                return None
            o = self._order(a, b)
            if o is None:
                # KEY vs LAST in a hit world: key <= last end is all that is known
                if {a, b} == {"KEY", "LAST"} and w in ("before", "on-start", "inside"):
                    gt = (op == "Gt" and a == "KEY") or (op == "Lt" and a == "LAST")
                    le = (op == "LtE" and a == "KEY") or (op == "GtE" and a == "LAST")
                    if gt:
                        return False
                    if le:
                        return True
                return None
            return {"Lt": o < 0, "LtE": o <= 0, "Gt": o > 0, "GtE": o >= 0, "Eq": o == 0, "NotEq": o != 0}.get(op)
        # truthiness of an array / of its length
        if term in (self.S, self.PERM, self.STARTS, self.VALUES):
            return w != "empty"
        if self._role(term) == "LEN":
            return w != "empty"
        return None

    def is_none(self, term, env, user, ctx):
        if self._is_C(term) or self._is_I(term):
            return False          # positions in the arrays are integers
        return super().is_none(term, env, user, ctx)

    def on(self, kind, node, env, ver, user, ctx):
        if kind == "call" and isinstance(node, ast.Call):
            nm = ext_name(self.P, ctx.func, node) or ""
            if nm.startswith("bisect."):
                t = self.sym(node, env, ver, ctx)
                args = tuple(self.sym(a, env, ver, ctx) for a in node.args)
                self.bisects.add((nm, args))
        if kind == "store" and isinstance(node, ast.Attribute) and self.memo is not None and ("h", node.attr) in env:
            t = env[("h", node.attr)]
            key = ("p", self.root_params[1]) if len(self.root_params) > 1 else None
            self.memo_stores.add((node.attr, "KEY" if t == key else "V" if (self.V is not None and t == self.V) else
                                  "NONE" if t == ("c", None) else "other"))
        if self.world is None:
            return None
        if self.V is None and self.S is not None:
            key = ("p", self.root_params[1]) if len(self.root_params) > 1 else None
            I = ("call", "bisect.bisect_left", (self.S, key), 0)
            self.V = ("sub", self.VALUES, ("sub", self.PERM, I, 0), 0)
        if kind == "subscript" and isinstance(node, ast.Subscript):
            t = self.sym(node, env, ver, ctx)
            if t[0] == "sub":
                base, idx = t[1], t[2]
                if self.world in ("empty", "beyond") and base in (self.S, self.PERM, self.STARTS, self.VALUES) and self._is_I(idx):
                    return RaiseExc(self.pack(env, ver, user), "IndexError")
                if self.world == "empty" and base in (self.S, self.PERM, self.STARTS, self.VALUES) and idx[0] == "c":
                    return RaiseExc(self.pack(env, ver, user), "IndexError")
        return None


def r4_derived(prog, rep: Report, im):
    rep.rule("C16.R4", "`in` is defined by lookup (True after self[key], False in the KeyError handler); len counts the "
             "intervals; iteration walks the end-sorted permutation yielding ((start, end), value)", floor=3)
    f = prog.resolve(im, "__contains__")
    rep.fn(f)
    key = f.params[1]
    # path analysis: True is returned only after self[key] completed, False only from a KeyError handler of that look-up
    cl = _ContainsPaths(key)
    it = Interp(prog, cl)
    ex = it.run(f, {(False, None)}, im)
    if it.unrecognised:
        rep.unrec("C16.R4", f, "contains-by-lookup", "; ".join(it.unrecognised))
    else:
        rets = cl.returns | {("fallthrough", s_) for s_ in ex.normal}
        bad = []
        seen_true = seen_false = False
        unknown = []
        for val, (looked, handler) in sorted(rets, key=repr):
            if val is True:
                seen_true = True
                if not looked:
                    bad.append("True is returned on a path that did not look the key up")
                if handler is not None:
                    bad.append(f"True is returned from the {handler} handler of the look-up")
            elif val is False:
                seen_false = True
                if handler != "KeyError":
                    bad.append("False is returned outside a KeyError handler of the look-up" if handler is None else
                               f"False is returned from a handler for {handler}, not KeyError")
            elif val == "fallthrough":
                bad.append("a path ends without returning a truth value")
            else:
                unknown.append(val)
        value_dep = [u for u in unknown if isinstance(u, str) and f"{f.self_name}[{key}]" in u.replace(" ", "")]
        if value_dep:
            rep.viol("C16.R4", f, "contains-by-lookup", f"the answer is computed from the stored value (`{value_dep[0]}`): membership "
                     "is a matter of the key alone, and a miss still has to be turned into False",
                     scenario="m = ImmutIntervalMap({(1, 5): None}); 3 in m is False although m[3] succeeds; 9 in m raises KeyError")
        elif unknown and not bad:
            rep.unrec("C16.R4", f, "contains-by-lookup", f"returned value is not a constant truth value: {unknown[0]}")
        elif not bad and not (seen_true and seen_false):
            rep.viol("C16.R4", f, "contains-by-lookup", "`in` does not answer both ways: " +
                     ("no path returns True" if not seen_true else "no path returns False (a miss propagates as KeyError)"),
                     scenario="`key in m` raises KeyError for a key in no interval")
        else:
            rep.check("C16.R4", f, "contains-by-lookup", not bad,
                      "True after self[key] completed, False in the KeyError handler of that look-up (all paths)",
                      "; ".join(sorted(set(bad))),
                      scenario="`key in m` and m[key] disagree: a miss propagates as an exception or a hit reports False")
    ln = prog.method_view(im, "__len__")
    rep.fn(ln)
    ok = any(isinstance(r.value, ast.Call) and src(r.value.func) == "len" and r.value.args
             and dotted(r.value.args[0]) and dotted(r.value.args[0])[0] == ln.self_name for r in returns_of(ln.node))
    rep.check("C16.R4", ln, "len", ok, "len of one of the per-interval arrays", "__len__ does not count the intervals",
              scenario="len(m) differs from the number of intervals")
    it = prog.resolve(im, "__iter__")
    rep.fn(it)
    roles = interval_roles(prog.method_view(im, "__init__"))
    if not ({"perm", "sorted", "starts", "values"} <= set(roles)):
        rep.unrec("C16.R4", it, "iter", f"the arrays of the map could not be told apart from the constructor (found {sorted(roles)})")
    else:
        me = ("self",)
        A = {k: ("attr", me, roles[k].split(".", 1)[1]) for k in ("perm", "sorted", "starts", "values")}
        cl = _IterYields()
        ip, ex = run_sym(prog, cl, it, im)
        if ip.unrecognised:
            rep.unrec("C16.R4", it, "iter", "; ".join(ip.unrecognised))
        elif not cl.yields:
            rep.viol("C16.R4", it, "iter", "__iter__ yields nothing", scenario="iteration over a non-empty map is empty")
        else:
            good, wrong, unknown = 0, [], []
            for y in sorted(cl.yields, key=repr):
                loops = {t[2] for t in _subterms(y) if t[0] == "elem"} | {t[1] for t in _subterms(y) if t[0] == "idx"}
                if len(loops) != 1:
                    unknown.append(y)
                    continue
                L = next(iter(loops))
                pe = ("elem", A["perm"], L)
                want = ("tuple", ("tuple", ("sub", A["starts"], pe, 0), ("elem", A["sorted"], L)), ("sub", A["values"], pe, 0))
                if y == want:
                    good += 1
                elif all(t in A.values() for t in _subterms(y) if t[0] == "attr") and y[0] == "tuple":
                    wrong.append(y)
                else:
                    unknown.append(y)
            if wrong:
                rep.viol("C16.R4", it, "iter", "__iter__ does not yield ((start, end), value) aligned through the end-sorted permutation: "
                         f"it yields {_show_deep(wrong[0])}",
                         scenario="iteration is not ascending or pairs an interval with another interval's value")
            elif unknown:
                rep.unrec("C16.R4", it, "iter", f"yielded value not understood: {_show_deep(unknown[0])}")
            else:
                rep.ok("C16.R4", it, "iter", "yields ((start[i], end), value[i]) along the end-sorted permutation, front to back")
