"""C16 — ImmutIntervalMap returns the value of the one interval containing the key (DESIGN.md §6, partial)."""
from __future__ import annotations

import ast
from typing import Dict, List, Optional

from ..flow import Flow
from ..model import AnalysisError, Func, Program, walk_own
from ..orderings import NotAFormula, eval_order, weak_orderings
from ..report import Report
from ..resolve import const_value, dotted, kwarg
from ..util import before, calls_in, ext_name, returns_of, src
from .c10 import relation_formula_check

MAPS_MOD = "windpyutils.structures.maps"


def run(prog: Program, rep: Report):
    im = prog.cls("ImmutIntervalMap", MAPS_MOD)
    rep.rule("C16.R1", "the Overlaps relation is exact for closed intervals (all weak orderings of four endpoints with "
             "start <= end)", floor=1)
    relation_formula_check(prog, rep, "C16.R1", "SpanSetOverlapsEqRelation")
    r2_construction(prog, rep, im)
    r3_lookup(prog, rep, im)
    r4_derived(prog, rep, im)
    # disjointness is decided by building a SpanSet: the constructor's "keep a span iff no span kept so far matches" clause (and the
    # argument roles of its relation calls) is part of this property
    from .c10 import SPAN_MOD, r2_sites
    r2_sites(prog, rep, prog.cls("SpanSet", SPAN_MOD), rule="C16.R5", floor=3)
    from .memo import public_entry_points, rule_derived_state
    from .ownership import rule_no_class_state
    roles = interval_roles(prog.method_view(im, "__init__"))
    prim = {v.split(".", 1)[1] for v in roles.values() if v.startswith("self.")}
    rule_derived_state(prog, rep, "C16.R6", im, prim, public_entry_points(prog, im),
                       what="the map is immutable: a remembered key or value (a one-entry look-up memo) is derived from the look-up "
                            "argument, not from the map, and is handled by the look-up rules; this instance only guards fields derived "
                            "from the arrays")
    rule_no_class_state(prog, rep, "C16.R7", [im])


def _raises(stmts) -> Optional[str]:
    for st in stmts:
        if isinstance(st, ast.Raise) and st.exc is not None:
            x = st.exc.func if isinstance(st.exc, ast.Call) else st.exc
            return src(x)
    return None


def r2_construction(prog, rep: Report, im):
    rep.rule("C16.R2", "construction: every interval passes a `start > end -> raise KeyError` test before it is recorded; "
             "disjointness is decided by a span set built with the Overlaps relation and duplicate check on, from "
             "index-aligned starts/ends, followed by `len(span_set) != len(mapping) -> raise KeyError`", floor=4)
    f = prog.method_view(im, "__init__")
    rep.fn(f)
    mapping = f.params[1]
    loop = None
    for n in walk_own(f.node):
        if isinstance(n, ast.For) and src(n.iter) in (f"{mapping}.items()",):
            loop = n
            break
    if loop is None or not (isinstance(loop.target, ast.Tuple) and isinstance(loop.target.elts[0], ast.Tuple)):
        rep.unrec("C16.R2", f, "validity", "loop `for (start, end), value in mapping.items()` not found")
        return
    s, e = (x.id for x in loop.target.elts[0].elts)
    val = src(loop.target.elts[1])
    # validity test: first statement of the loop raises KeyError iff start > end
    first = loop.body[0]
    if not (isinstance(first, ast.If) and _raises(first.body)):
        rep.viol("C16.R2", f, "validity", "the interval loop does not start with a raising validity test",
                 scenario="ImmutIntervalMap({(5, 1): 'x'}) is accepted", line=loop.lineno)
    else:
        W = weak_orderings([s, e])
        try:
            bad = [w for w in W if eval_order(first.test, w) != (w[s] > w[e])]
        except NotAFormula as ex:
            bad = None
            rep.unrec("C16.R2", f, "validity", f"validity test not a comparison of start and end: {ex}")
        if bad is not None:
            rep.count("orderings_evaluated", len(W))
            exc = _raises(first.body)
            rep.check("C16.R2", f, "validity", not bad and exc == "KeyError",
                      f"`{src(first.test)}` raises KeyError exactly when start > end (3 orderings)",
                      (f"validity test `{src(first.test)}` is wrong for the ordering {bad[0]}" if bad else
                       f"invalid interval raises {exc}, not KeyError"),
                      scenario="a degenerate single-point interval (5, 5) is rejected, or a reversed interval is accepted",
                      line=first.lineno)
    # recording: starts/ends/values appended in the same iteration from (start, end, value)
    apps = {}
    for st in loop.body:
        if isinstance(st, ast.Expr) and isinstance(st.value, ast.Call) and isinstance(st.value.func, ast.Attribute) \
                and st.value.func.attr == "append" and len(st.value.args) == 1:
            apps[src(st.value.func.value)] = src(st.value.args[0])
    starts_arr = [k for k, v in apps.items() if v == s]
    ends_arr = [k for k, v in apps.items() if v == e]
    vals_arr = [k for k, v in apps.items() if v == val]
    rep.check("C16.R2", f, "recording", len(starts_arr) == 1 and len(ends_arr) == 1 and len(vals_arr) == 1,
              f"start -> {starts_arr}, end -> {ends_arr}, value -> {vals_arr} appended in the same iteration",
              f"start/end/value of an interval are not appended to three arrays in the same iteration: {apps}",
              scenario="starts, ends and values get misaligned: lookup returns another interval's value")
    if not (starts_arr and ends_arr):
        return
    # span set
    ss_calls = [c for c in calls_in(f.node) if src(c.func) == "SpanSet"]
    if len(ss_calls) != 1:
        rep.unrec("C16.R2", f, "disjointness", f"expected one SpanSet(...) construction, found {len(ss_calls)}")
        return
    c = ss_calls[0]
    a_starts = kwarg(c, "starts", 0)
    a_ends = kwarg(c, "ends", 1)
    rel = kwarg(c, "eq_relation", 3)
    nodup = kwarg(c, "force_no_dup_check", 2)
    good = a_starts is not None and a_ends is not None and src(a_starts) == starts_arr[0] and src(a_ends) == ends_arr[0]
    rel_ok = rel is not None and isinstance(rel, ast.Call) and src(rel.func) == "SpanSetOverlapsEqRelation"
    dup_ok = nodup is None or const_value(nodup) is False
    rep.check("C16.R2", f, "disjointness:spanset", good and rel_ok and dup_ok,
              "SpanSet(starts, ends, eq_relation=Overlaps) with the duplicate check on",
              ("span set not built from the recorded starts/ends" if not good else
               f"span set built with relation {src(rel) if rel is not None else 'default Exact'}" if not rel_ok else
               "span set built with force_no_dup_check: overlapping intervals are never merged, so the length test "
               "cannot detect them"),
              scenario="ImmutIntervalMap({(1, 5): 'a', (3, 8): 'b'}) is accepted although the intervals share points",
              line=c.lineno)
    # length comparison raising KeyError
    ss_var = None
    p = getattr(c, "_parent", None)
    if isinstance(p, ast.Assign) and isinstance(p.targets[0], ast.Name):
        ss_var = p.targets[0].id
    found = False
    for n in walk_own(f.node):
        if isinstance(n, ast.If) and isinstance(n.test, ast.Compare) and len(n.test.ops) == 1:
            sides = {src(n.test.left), src(n.test.comparators[0])}
            if f"len({ss_var})" in sides and (f"len({mapping})" in sides or f"len({starts_arr[0]})" in sides):
                found = True
                op = n.test.ops[0]
                exc = _raises(n.body)
                ok = isinstance(op, (ast.NotEq, ast.Lt, ast.Gt)) and exc == "KeyError"
                if isinstance(op, ast.Lt) and src(n.test.left) != f"len({ss_var})":
                    ok = False
                if isinstance(op, ast.Gt) and src(n.test.left) == f"len({ss_var})":
                    ok = False
                rep.check("C16.R2", f, "disjointness:length-test", ok,
                          f"`{src(n.test)}` raises KeyError when spans were merged",
                          f"length test `{src(n.test)}` / exception {exc} does not reject merged (overlapping) intervals with KeyError",
                          scenario="overlapping intervals are accepted or rejected with the wrong exception type", line=n.lineno)
    if not found:
        rep.viol("C16.R2", f, "disjointness:length-test", "no comparison of len(span_set) with the number of intervals",
                 scenario="overlapping intervals are accepted")


def interval_roles(init: Func) -> Dict[str, str]:
    """which container of __init__ plays which part, found by what is appended to it:
    starts / ends / values   receive the start, the end and the value of `for (start, end), value in mapping.items()`;
    sorted / perm            receive the end and the original index of `for i, e in sorted(enumerate(<ends>), key=...)`.
    Values are source texts of the receivers (`self._interval_starts`, `interval_ends`, ...)."""
    roles: Dict[str, str] = {}
    for n in walk_own(init.node):
        if not isinstance(n, ast.For):
            continue
        appended = {}
        for st in ast.walk(n):
            if isinstance(st, ast.Call) and isinstance(st.func, ast.Attribute) and st.func.attr == "append" and len(st.args) == 1 \
                    and isinstance(st.args[0], ast.Name):
                appended[st.args[0].id] = src(st.func.value)
        t = n.target
        if isinstance(t, ast.Tuple) and len(t.elts) == 2 and isinstance(t.elts[0], ast.Tuple) and len(t.elts[0].elts) == 2 \
                and all(isinstance(x, ast.Name) for x in t.elts[0].elts) and isinstance(t.elts[1], ast.Name):
            a, b, v = t.elts[0].elts[0].id, t.elts[0].elts[1].id, t.elts[1].id
            for role, nm in (("starts", a), ("ends", b), ("values", v)):
                if nm in appended:
                    roles[role] = appended[nm]
        elif isinstance(t, ast.Tuple) and len(t.elts) == 2 and all(isinstance(x, ast.Name) for x in t.elts) \
                and isinstance(n.iter, ast.Call) and src(n.iter.func) == "sorted":
            i, e = t.elts[0].id, t.elts[1].id
            if e in appended:
                roles["sorted"] = appended[e]
            if i in appended:
                roles["perm"] = appended[i]
    # argsort form:  perm = sorted(range(len(<ends>)), key=<ends>.__getitem__ | lambda i: <ends>[i]);  sorted = [<ends>[i] for i in perm]
    if "perm" not in roles or "sorted" not in roles:
        a = argsort_construction(init)
        if a is not None:
            roles["perm"], roles["sorted"] = a["perm"], a["sorted"]
    return roles


def argsort_construction(init: Func) -> Optional[Dict[str, object]]:
    """{'perm': text, 'sorted': text, 'from': text of the unsorted ends, 'ok': ascending stable argsort of the ends and the ends
    gathered through it} for the argsort way of building the two arrays, or None"""
    perm_t = src_t = None
    asc = False
    from ..util import iter_stores
    for t, v, st in iter_stores(init.node):
        if isinstance(v, ast.Call) and src(v.func) == "sorted" and len(v.args) == 1 and isinstance(v.args[0], ast.Call) \
                and src(v.args[0].func) == "range" and len(v.args[0].args) == 1 and isinstance(v.args[0].args[0], ast.Call) \
                and src(v.args[0].args[0].func) == "len" and v.args[0].args[0].args:
            base = src(v.args[0].args[0].args[0])
            key = next((k.value for k in v.keywords if k.arg == "key"), None)
            rev = next((k.value for k in v.keywords if k.arg == "reverse"), None)
            key_ok = (isinstance(key, ast.Attribute) and key.attr == "__getitem__" and src(key.value) == base) or \
                (isinstance(key, ast.Lambda) and isinstance(key.body, ast.Subscript) and src(key.body.value) == base
                 and key.args.args and src(key.body.slice) == key.args.args[0].arg)
            if key_ok:
                perm_t, src_t = src(t), base
                asc = rev is None or const_value(rev) is False
    if perm_t is None:
        return None
    sorted_t = None
    for t, v, st in iter_stores(init.node):
        if isinstance(v, ast.ListComp) and len(v.generators) == 1 and not v.generators[0].ifs and src(v.generators[0].iter) == perm_t \
                and isinstance(v.elt, ast.Subscript) and src(v.elt.value) == src_t and isinstance(v.generators[0].target, ast.Name) \
                and src(v.elt.slice) == v.generators[0].target.id:
            sorted_t = src(t)
    if sorted_t is None:
        return None
    return {"perm": perm_t, "sorted": sorted_t, "from": src_t, "ok": asc}


def r3_lookup(prog, rep: Report, im):
    rep.rule("C16.R3", "lookup: closed-interval idiom (bisect_left over the sorted ends, miss if index == len, miss if key < "
             "start of the candidate; both misses raise KeyError); candidate start and value are taken through the same "
             "permutation index; sorted ends and their permutation are built index-aligned", floor=5)
    f = prog.method_view(im, "__getitem__")
    init = prog.method_view(im, "__init__")
    rep.fn(f, init)
    key = f.params[1]
    flow = Flow(f.node)
    bis = [c for c in calls_in(f.node) if (ext_name(prog, f, c) or "").startswith("bisect.")]
    if len(bis) != 1:
        rep.unrec("C16.R3", f, "bisect", f"expected one bisect call, found {len(bis)}")
        return
    b = bis[0]
    fn = ext_name(prog, f, b)
    arr = dotted(b.args[0]) if b.args else None
    p = getattr(b, "_parent", None)
    idx = p.targets[0].id if isinstance(p, ast.Assign) and isinstance(p.targets[0], ast.Name) else None
    if arr is None or idx is None or len(b.args) != 2 or src(b.args[1]) != key:
        rep.unrec("C16.R3", f, "bisect", f"bisect call shape not recognised: {src(b)}")
        return
    sorted_arr = arr[1]
    # how the sorted array is built in __init__: for i, e in sorted(enumerate(X), key=lambda x: x[1])
    perm_arr, built_from, aligned = None, None, False
    for n in walk_own(init.node):
        if isinstance(n, ast.For) and isinstance(n.iter, ast.Call) and src(n.iter.func) == "sorted" and n.iter.args \
                and isinstance(n.iter.args[0], ast.Call) and src(n.iter.args[0].func) == "enumerate" \
                and isinstance(n.target, ast.Tuple) and len(n.target.elts) == 2:
            i_name, e_name = (x.id for x in n.target.elts)
            built_from = src(n.iter.args[0].args[0])
            k = kwarg(n.iter, "key")
            key_ok = isinstance(k, ast.Lambda) and isinstance(k.body, ast.Subscript) and const_value(k.body.slice) == 1 \
                and not any(kw.arg == "reverse" for kw in n.iter.keywords)
            apps = {}
            for st in n.body:
                if isinstance(st, ast.Expr) and isinstance(st.value, ast.Call) and isinstance(st.value.func, ast.Attribute) \
                        and st.value.func.attr == "append":
                    d = dotted(st.value.func.value)
                    if d and len(d) == 2:
                        apps[d[1]] = src(st.value.args[0])
            if apps.get(sorted_arr) == e_name:
                perm = [k2 for k2, v in apps.items() if v == i_name]
                perm_arr = perm[0] if perm else None
                aligned = key_ok and perm_arr is not None and len(n.body) == 2
    if perm_arr is None:
        a = argsort_construction(init)
        if a is not None and a["sorted"] == f"{init.self_name}.{sorted_arr}" and str(a["perm"]).startswith(init.self_name + "."):
            perm_arr, built_from, aligned = str(a["perm"]).split(".", 1)[1], str(a["from"]), bool(a["ok"])
    if perm_arr is None:
        # recognisably wrong: the permutation array is filled as  perm[<original index>] = <sorted position>  (the inverse)
        for n in walk_own(init.node):
            if isinstance(n, ast.For) and isinstance(n.iter, ast.Call) and "sorted(" in src(n.iter) and "enumerate(" in src(n.iter):
                names = [x.id for x in ast.walk(n.target) if isinstance(x, ast.Name)]
                for st in ast.walk(n):
                    if isinstance(st, ast.Assign) and isinstance(st.targets[0], ast.Subscript) and isinstance(st.targets[0].slice, ast.Name) \
                            and isinstance(st.value, ast.Name) and st.targets[0].slice.id in names and st.value.id in names \
                            and dotted(st.targets[0].value) and dotted(st.targets[0].value)[0] == init.self_name:
                        outer_enum = isinstance(n.iter, ast.Call) and src(n.iter.func) == "enumerate"
                        pos_name = names[0] if outer_enum else None
                        if pos_name and st.value.id == pos_name and st.targets[0].slice.id != pos_name:
                            rep.viol("C16.R3", init, "sorted-ends",
                                     f"`{src(st)}` stores the sorted position under the original index: that is the inverse of the "
                                     f"permutation the lookup needs (sorted position -> original index)",
                                     scenario="intervals given as [(5,5), (6,9.5), (1,3)]: the lookup picks another interval's start "
                                              "and value; every fixture of the suite happens to have a self-inverse order",
                                     line=st.lineno)
                            return
        rep.unrec("C16.R3", init, "sorted-ends", f"construction of self.{sorted_arr} and its permutation array not recognised")
        return
    roles = interval_roles(init)
    rep.check("C16.R3", init, "sorted-ends", aligned and built_from == roles.get("ends"),
              f"self.{sorted_arr} / self.{perm_arr} built index-aligned from sorted(enumerate({built_from}), key=end)",
              f"self.{sorted_arr} / self.{perm_arr} are not built index-aligned and ascending by interval end from {built_from}",
              scenario="the bisect runs over an unsorted or misaligned array: keys inside an interval raise KeyError or "
                       "return another interval's value")
    inits = [val for t, val, st_ in __import__("sa.util", fromlist=["iter_stores"]).iter_stores(init.node)
             if dotted(t) == (init.self_name, sorted_arr) and val is not None]
    plain = all(isinstance(v, ast.List) or (isinstance(v, ast.Call) and src(v.func) == "list") or isinstance(v, ast.ListComp) for v in inits)
    rep.check("C16.R3", init, "ends-container", bool(inits) and plain, f"self.{sorted_arr} is a plain list (ends stored as given)",
              f"self.{sorted_arr} is initialised as `{src(inits[0]) if inits else '?'}`: a typed container converts the interval ends "
              f"(e.g. array('d') rounds ints above 2**53 and Fractions), the key equal to such an end is no longer found",
              scenario="ImmutIntervalMap({(0, 9007199254740993): 'low'})[9007199254740993] raises KeyError")
    rep.check("C16.R3", f, "bisect", fn == "bisect.bisect_left",
              f"bisect_left(self.{sorted_arr}, key): smallest end >= key",
              f"{fn} over the sorted ends: a key equal to an interval end selects the next interval",
              scenario="m = ImmutIntervalMap({(1, 5): 'a', (7, 9): 'b'}); m[5] raises KeyError (5 is inside [1, 5])",
              line=b.lineno)
    # miss 1: idx == len(sorted) -> KeyError, dominating the subscripts
    miss1 = None
    miss2 = None
    cand = None
    for n in walk_own(f.node):
        if isinstance(n, ast.If) and isinstance(n.test, ast.Compare) and len(n.test.ops) == 1:
            l, r = n.test.left, n.test.comparators[0]
            sides = {src(l), src(r)}
            if idx in sides and f"len(self.{sorted_arr})" in sides:
                miss1 = n
            elif key in sides and before(f.node, b, n):
                miss2 = n
        if isinstance(n, ast.Assign) and isinstance(n.value, ast.Subscript) and dotted(n.value.value) == (f.self_name, perm_arr) \
                and src(n.value.slice) == idx and isinstance(n.targets[0], ast.Name):
            cand = n.targets[0].id
    if miss1 is None:
        # alternative idiom: a guard before the bisect, `key > self.<ends>[-1]` -> KeyError; equivalent on a non-empty map,
        # and on the empty map only if an emptiness test comes first (self.<ends>[-1] raises IndexError there)
        S = f"{f.self_name}.{sorted_arr}"
        alt = None
        for n in walk_own(f.node):
            if isinstance(n, ast.If) and before(f.node, n, b) and _raises(n.body) == "KeyError":
                parts = n.test.values if isinstance(n.test, ast.BoolOp) and isinstance(n.test.op, ast.Or) else [n.test]
                for k, pt in enumerate(parts):
                    if isinstance(pt, ast.Compare) and len(pt.ops) == 1:
                        l, r, op = src(pt.left), src(pt.comparators[0]), pt.ops[0]
                        if (l == key and r == f"{S}[-1]" and isinstance(op, ast.Gt)) or (l == f"{S}[-1]" and r == key and isinstance(op, ast.Lt)):
                            empt = {f"not {S}", f"len({S}) == 0", f"0 == len({S})", f"len({S}) < 1"}
                            earlier = any(src(q) in empt for q in parts[:k])
                            before_ = any(isinstance(m, ast.If) and before(f.node, m, n) and src(m.test) in empt
                                         and _raises(m.body) == "KeyError" for m in walk_own(f.node))
                            alt = (n, earlier or before_)
        if alt is not None and alt[1]:
            rep.ok("C16.R3", f, "miss:beyond-last", f"`{src(alt[0].test)}` raises KeyError before the bisect (emptiness tested first)")
        elif alt is not None:
            rep.viol("C16.R3", f, "miss:beyond-last", f"`{src(alt[0].test)}` replaces the test of the bisect index against "
                     f"len(self.{sorted_arr}) but evaluates self.{sorted_arr}[-1] without an emptiness test",
                     scenario="any lookup (and `key in m`) on ImmutIntervalMap({}) raises IndexError instead of KeyError / False",
                     line=alt[0].lineno)
        else:
            rep.viol("C16.R3", f, "miss:beyond-last", f"no test of the bisect index against len(self.{sorted_arr})",
                     scenario="a key greater than every interval end raises IndexError instead of KeyError")
    else:
        op = miss1.test.ops[0]
        left_is_idx = src(miss1.test.left) == idx
        ok = (isinstance(op, ast.Eq)) or (isinstance(op, ast.GtE) and left_is_idx) or (isinstance(op, ast.LtE) and not left_is_idx)
        rep.check("C16.R3", f, "miss:beyond-last", ok and _raises(miss1.body) == "KeyError",
                  f"`{src(miss1.test)}` raises KeyError", f"`{src(miss1.test)}` does not raise KeyError exactly when no end >= key",
                  scenario="a key greater than every interval end raises IndexError / a key inside the last interval raises KeyError",
                  line=miss1.lineno)
    if cand is None:
        rep.unrec("C16.R3", f, "candidate", f"candidate index `x = self.{perm_arr}[{idx}]` not found")
        return
    # start of the candidate and returned value through the same index
    start_var, start_arr = None, None
    for n in walk_own(f.node):
        if isinstance(n, ast.Assign) and isinstance(n.value, ast.Subscript) and src(n.value.slice) == cand \
                and isinstance(n.targets[0], ast.Name):
            d = dotted(n.value.value)
            if d and len(d) == 2:
                start_var, start_arr = n.targets[0].id, d[1]
    rets = returns_of(f.node)
    ret_ok = len(rets) == 1 and isinstance(rets[0].value, ast.Subscript) and src(rets[0].value.slice) == cand \
        and src(rets[0].value.value) == roles.get("values")
    rep.check("C16.R3", f, "candidate", start_var is not None and f"{f.self_name}.{start_arr}" == roles.get("starts") and ret_ok,
              f"start = self.{start_arr}[{cand}], result = {src(rets[0].value) if rets else '?'}: same permutation index",
              "candidate start and returned value are not both subscripted with the candidate's permutation index",
              scenario="lookup returns the value of another interval")
    if miss2 is None or start_var is None:
        rep.viol("C16.R3", f, "miss:before-start", "no test of the key against the candidate interval's start",
                 scenario="a key in the gap between two intervals returns the value of the next interval")
    else:
        W = weak_orderings([key, start_var])
        try:
            bad = [w for w in W if eval_order(miss2.test, w) != (w[key] < w[start_var])]
            rep.count("orderings_evaluated", len(W))
            rep.check("C16.R3", f, "miss:before-start", not bad and _raises(miss2.body) == "KeyError",
                      f"`{src(miss2.test)}` raises KeyError exactly when key < start (3 orderings)",
                      f"`{src(miss2.test)}` is wrong for the ordering {bad[0] if bad else ''} / raises {_raises(miss2.body)}",
                      scenario="m = ImmutIntervalMap({(1, 5): 'a'}); m[1] raises KeyError (the start is inclusive), or m[0] returns 'a'",
                      line=miss2.lineno)
        except NotAFormula as ex:
            rep.unrec("C16.R3", f, "miss:before-start", f"start test is not a comparison of key and start: {ex}")


def r4_derived(prog, rep: Report, im):
    rep.rule("C16.R4", "`in` is defined by lookup (True after self[key], False in the KeyError handler); len counts the "
             "intervals; iteration walks the end-sorted permutation yielding ((start, end), value)", floor=3)
    f = prog.method_view(im, "__contains__")
    rep.fn(f)
    key = f.params[1]
    ok = False
    why = "no try/except around self[key]"
    for n in walk_own(f.node):
        if isinstance(n, ast.Try):
            looks = [s for s in ast.walk(ast.Module(body=n.body, type_ignores=[])) if isinstance(s, ast.Subscript)
                     and src(s.value) == f.self_name and src(s.slice) == key]
            rets_body = [s for s in n.body + n.orelse if isinstance(s, ast.Return)]
            hs = [h for h in n.handlers if h.type is not None and src(h.type) == "KeyError"]
            if looks and rets_body and const_value(rets_body[-1].value) is True and len(n.handlers) == 1 and hs \
                    and len(hs[0].body) == 1 and isinstance(hs[0].body[0], ast.Return) \
                    and const_value(hs[0].body[0].value) is False:
                ok = True
            elif looks:
                why = "the handler is not `except KeyError: return False` / the try does not return True"
    rep.check("C16.R4", f, "contains-by-lookup", ok, "try: self[key]; return True / except KeyError: return False", why,
              scenario="`key in m` and m[key] disagree: a miss propagates as an exception or a hit reports False")
    ln = prog.method_view(im, "__len__")
    rep.fn(ln)
    ok = any(isinstance(r.value, ast.Call) and src(r.value.func) == "len" and r.value.args
             and dotted(r.value.args[0]) and dotted(r.value.args[0])[0] == ln.self_name for r in returns_of(ln.node))
    rep.check("C16.R4", ln, "len", ok, "len of one of the per-interval arrays", "__len__ does not count the intervals",
              scenario="len(m) differs from the number of intervals")
    it = prog.method_view(im, "__iter__")
    rep.fn(it)
    ok = False
    roles = interval_roles(prog.method_view(im, "__init__"))
    for n in walk_own(it.node):
        if isinstance(n, ast.For) and isinstance(n.iter, ast.Call) and src(n.iter.func) == "zip" and len(n.iter.args) == 2 \
                and isinstance(n.target, ast.Tuple):
            arrs = [src(a) for a in n.iter.args]
            names = [x.id for x in n.target.elts]
            by_arr = dict(zip(arrs, names))
            if roles.get("perm") not in by_arr or roles.get("sorted") not in by_arr:
                continue
            i, e = by_arr[roles["perm"]], by_arr[roles["sorted"]]
            ys = [y for y in ast.walk(n) if isinstance(y, ast.Yield)]
            if len(ys) == 1 and isinstance(ys[0].value, ast.Tuple) and len(ys[0].value.elts) == 2:
                iv, val = ys[0].value.elts
                ok = isinstance(iv, ast.Tuple) and len(iv.elts) == 2 and isinstance(iv.elts[0], ast.Subscript) \
                    and src(iv.elts[0].slice) == i and src(iv.elts[0].value) == roles.get("starts") and src(iv.elts[1]) == e \
                    and isinstance(val, ast.Subscript) and src(val.slice) == i and src(val.value) == roles.get("values") or ok
    if not ok and not ({"perm", "sorted", "starts", "values"} <= set(roles)):
        rep.unrec("C16.R4", it, "iter", f"the arrays of the map could not be told apart from the constructor (found {sorted(roles)})")
    else:
        rep.check("C16.R4", it, "iter", ok, "yields ((start[i], end), value[i]) along the end-sorted permutation",
                  "__iter__ does not yield ((start, end), value) aligned through the end-sorted permutation",
                  scenario="iteration is not ascending or pairs an interval with another interval's value")
