"""Small AST helpers shared by the rule modules."""
from __future__ import annotations

import ast
from typing import Iterable, Iterator, List, Optional, Tuple

from .model import Func, Program, walk_own
from .resolve import Scope, dotted, kwarg, const_value


def calls_in(fn_or_node, own_only=True) -> Iterator[ast.Call]:
    it = walk_own(fn_or_node) if own_only and hasattr(fn_or_node, "body") else ast.walk(fn_or_node)
    for n in it:
        if isinstance(n, ast.Call):
            yield n


def is_self_attr(e: ast.expr, self_name: Optional[str], attr: Optional[str] = None) -> bool:
    return isinstance(e, ast.Attribute) and isinstance(e.value, ast.Name) and e.value.id == self_name \
        and (attr is None or e.attr == attr)


def self_field(e: ast.expr, self_name: Optional[str]) -> Optional[str]:
    if isinstance(e, ast.Attribute) and isinstance(e.value, ast.Name) and e.value.id == self_name:
        return e.attr
    return None


def ext_name(prog: Program, f: Func, call: ast.Call) -> Optional[str]:
    return prog.external_name(f.mod, call.func)


def method_call(e: ast.expr, names: Iterable[str] = ()) -> Optional[Tuple[ast.expr, str, ast.Call]]:
    """(receiver, method name, call) when ``e`` is ``recv.name(...)``"""
    if isinstance(e, ast.Call) and isinstance(e.func, ast.Attribute):
        if not names or e.func.attr in names:
            return e.func.value, e.func.attr, e
    return None


def returns_of(fn_node) -> List[ast.Return]:
    return [n for n in walk_own(fn_node) if isinstance(n, ast.Return)]


def open_mode(call: ast.Call) -> Optional[str]:
    m = kwarg(call, "mode", 1)
    if m is None:
        return "r"
    v = const_value(m)
    return v if isinstance(v, str) else None


def stmts_of(fn_node) -> Iterator[ast.stmt]:
    for n in walk_own(fn_node):
        if isinstance(n, ast.stmt):
            yield n


def assigned_targets(st: ast.stmt) -> List[ast.expr]:
    if isinstance(st, ast.Assign):
        out = []
        for t in st.targets:
            out.extend(t.elts if isinstance(t, (ast.Tuple, ast.List)) else [t])
        return out
    if isinstance(st, (ast.AugAssign, ast.AnnAssign)):
        return [st.target]
    return []


def src(n) -> str:
    try:
        return ast.unparse(n)
    except Exception:
        return "<?>"


def norm(n) -> str:
    """position-free structural key of an AST node"""
    return ast.dump(n, annotate_fields=False, include_attributes=False)


def assigned_value(target) -> Optional[ast.expr]:
    """the expression assigned to ``target`` (a node in store context), looking through tuple targets
    (``a.x, a.y = k, v`` assigns ``v`` to ``a.y``); None when the target is not the target of an assignment
    statement or the right-hand side is not a literal tuple of matching arity"""
    path = []
    n = target
    p = getattr(n, "_parent", None)
    while isinstance(p, (ast.Tuple, ast.List, ast.Starred)):
        path.append((p, n))
        n, p = p, getattr(p, "_parent", None)
    if isinstance(p, (ast.Assign, ast.AnnAssign, ast.NamedExpr)):
        val = p.value
    else:
        return None
    for tup, child in reversed(path):
        if isinstance(tup, ast.Starred) or val is None:
            return None
        if isinstance(val, (ast.Tuple, ast.List)) and len(val.elts) == len(tup.elts) \
                and not any(isinstance(e, ast.Starred) for e in list(val.elts) + list(tup.elts)):
            val = val.elts[[i for i, e in enumerate(tup.elts) if e is child][0]]
        else:
            return None
    return val


def iter_stores(fn_node):
    """(target, value or None, statement) for every assignment in a function body; tuple targets are flattened and
    paired with the elements of a literal tuple on the right-hand side"""
    for n in walk_own(fn_node):
        if isinstance(n, ast.Assign):
            for t in n.targets:
                yield from _flatten_target(t, n.value, n)
        elif isinstance(n, ast.AnnAssign) and n.value is not None:
            yield n.target, n.value, n
        elif isinstance(n, ast.AugAssign):
            yield n.target, None, n


def _flatten_target(t, val, stmt):
    if isinstance(t, (ast.Tuple, ast.List)):
        lit = isinstance(val, (ast.Tuple, ast.List)) and len(val.elts) == len(t.elts) \
            and not any(isinstance(e, ast.Starred) for e in list(val.elts) + list(t.elts))
        for i, el in enumerate(t.elts):
            yield from _flatten_target(el.value if isinstance(el, ast.Starred) else el, val.elts[i] if lit else None, stmt)
    else:
        yield t, val, stmt


def _is_manager_ctor(prog, f, e) -> bool:
    """Manager(), <context>.Manager(), SyncManager(), optionally followed by .__enter__() / .start()"""
    while isinstance(e, ast.Call) and isinstance(e.func, ast.Attribute) and e.func.attr in ("__enter__", "start"):
        e = e.func.value
    if isinstance(e, ast.Call):
        name = ext_name(prog, f, e) or src(e.func)
        return name.split(".")[-1] in ("Manager", "SyncManager")
    return False


def manager_fields(prog, cls) -> set:
    """fields of ``cls`` (along its repo MRO) that are assigned a multiprocessing manager: found by the constructor call, not by name"""
    out = set()
    for k in cls.repo_mro():
        for f in k.methods.values():
            if f.self_name is None:
                continue
            for t, val, _st in iter_stores(f.node):
                d = dotted(t)
                if d and len(d) == 2 and d[0] == f.self_name and val is not None and _is_manager_ctor(prog, f, val):
                    out.add(d[1])
    return out


def is_manager_expr(e, self_name, mgr_fields) -> bool:
    d = dotted(e)
    return bool(d) and len(d) == 2 and d[0] == self_name and d[1] in mgr_fields


def before(root, a, b) -> bool:
    """``a`` comes before ``b`` in the source order of the tree under ``root`` (pre-order position, not line numbers: the
    statements of an inlined helper keep their own lines)"""
    pos = getattr(root, "_order_index", None)
    if pos is None:
        pos = {}

        def go(n):
            pos[id(n)] = len(pos)
            for ch in ast.iter_child_nodes(n):
                go(ch)
        go(root)
        try:
            root._order_index = pos
        except Exception:
            pass
    return pos.get(id(a), -1) < pos.get(id(b), -1)


def comprehension_of(fn_node, name: str):
    """the list a local is built as, when it is built the long way:   L = []  ...  for t in it: L.append(E)   with nothing
    else touching L before it is used (the loop may sit inside a `with`): returns the equivalent ListComp node, else None"""
    inits, loops, other = [], [], []
    for n in walk_own(fn_node):
        if isinstance(n, ast.Assign) and any(isinstance(t, ast.Name) and t.id == name for t in n.targets):
            (inits if isinstance(n.value, ast.List) and not n.value.elts else other).append(n)
        elif isinstance(n, (ast.AugAssign, ast.Delete)) and any(isinstance(x, ast.Name) and x.id == name for x in ast.walk(n)):
            other.append(n)
        elif isinstance(n, ast.Call) and isinstance(n.func, ast.Attribute) and isinstance(n.func.value, ast.Name) and n.func.value.id == name:
            if n.func.attr == "append" and len(n.args) == 1 and not n.keywords:
                st = getattr(n, "_parent", None)
                lp = getattr(st, "_parent", None)
                if isinstance(st, ast.Expr) and isinstance(lp, ast.For) and lp.body == [st] and not lp.orelse:
                    loops.append((lp, n.args[0]))
                    continue
            other.append(n)
    if len(inits) != 1 or len(loops) != 1 or other:
        return None
    lp, elt = loops[0]
    comp = ast.ListComp(elt=elt, generators=[ast.comprehension(target=lp.target, iter=lp.iter, ifs=[], is_async=0)])
    return ast.copy_location(comp, lp)


def path_of(e, flow, keep=()):
    """dotted path of ``e`` in which a leading local that merely names another path (`item = node.data`) is replaced by that path
    (repeatedly); names in ``keep`` (self, parameters of interest) are never expanded.  None when ``e`` is not a dotted path."""
    d = dotted(e)
    if not d:
        return None
    root = e
    while isinstance(root, ast.Attribute):
        root = root.value
    seen = 0
    path = tuple(d)
    while isinstance(root, ast.Name) and root.id not in keep and isinstance(root.ctx, ast.Load) and seen < 6:
        ex = flow.expand(root)
        if ex is root:
            break
        dx = dotted(ex)
        if not dx:
            break
        path = tuple(dx) + path[1:]
        root = ex
        while isinstance(root, ast.Attribute):
            root = root.value
        seen += 1
    return path


def constructor_only_helpers(cls) -> set:
    """names of private methods of ``cls`` whose every call site inside the class is in __init__ or in another such helper:
    they are part of the constructor (an extracted piece of it)"""
    calls = {}      # callee name -> set of caller names
    for g in cls.methods.values():
        if g.self_name is None and not g.is_static:
            continue
        for c in ast.walk(g.node):
            if isinstance(c, ast.Call) and isinstance(c.func, ast.Attribute) and isinstance(c.func.value, ast.Name) \
                    and c.func.value.id in ((g.self_name,) if g.self_name else ()) + (cls.name,):
                calls.setdefault(c.func.attr, set()).add(g.name)
    out = set()
    changed = True
    while changed:
        changed = False
        for name, callers in calls.items():
            if name in out or name not in cls.methods or not name.startswith("_") or name.startswith("__"):
                continue
            if callers and all(c == "__init__" or c in out for c in callers):
                out.add(name)
                changed = True
    return out


def as_comprehension(prog, cls, f, e):
    """the generator expression / comprehension ``e`` stands for: ``e`` itself, a local bound to one, or a call of a parameterless
    generator method of ``cls`` whose body is a single `for ...: yield <expr>` loop (returned as the equivalent GeneratorExp)"""
    from .flow import Flow
    if isinstance(e, (ast.GeneratorExp, ast.ListComp)):
        return e
    if isinstance(e, ast.Name):
        ex = Flow(f.node).expand(e)
        if ex is not e:
            return as_comprehension(prog, cls, f, ex)
        return comprehension_of(f.node, e.id)
    g = None
    nested_ok = False
    if isinstance(e, ast.Call) and isinstance(e.func, ast.Name) and not e.args and not e.keywords and e.func.id in getattr(f, "nested", {}):
        g = f.nested[e.func.id]                   # a parameterless generator function defined inside f (it sees f's `self`)
        nested_ok = True
    elif isinstance(e, ast.Call) and isinstance(e.func, ast.Attribute) and isinstance(e.func.value, ast.Name) \
            and e.func.value.id == f.self_name and not e.args and not e.keywords and cls is not None:
        g = prog.resolve(cls, e.func.attr)
    if g is not None:
        if g is not None and g.is_generator and (nested_ok or g.self_name == f.self_name) or (g is not None and g.is_generator):
            body = [st for st in g.node.body if not (isinstance(st, ast.Expr) and isinstance(st.value, ast.Constant))]
            def yielded(st):
                """the expression a one-statement loop body yields: `yield E`, or `if c: yield A else: yield B` as a conditional"""
                if isinstance(st, ast.Expr) and isinstance(st.value, ast.Yield) and st.value.value is not None:
                    return st.value.value
                if isinstance(st, ast.If) and len(st.body) == 1 and len(st.orelse) == 1:
                    a_, b_ = yielded(st.body[0]), yielded(st.orelse[0])
                    if a_ is not None and b_ is not None:
                        return ast.copy_location(ast.IfExp(test=st.test, body=a_, orelse=b_), st)
                return None
            if len(body) == 1 and isinstance(body[0], ast.For) and not body[0].orelse and len(body[0].body) == 1 \
                    and yielded(body[0].body[0]) is not None and (nested_ok or g.self_name == f.self_name):
                lp = body[0]
                comp = ast.GeneratorExp(elt=yielded(lp.body[0]),
                                        generators=[ast.comprehension(target=lp.target, iter=lp.iter, ifs=[], is_async=0)])
                return ast.copy_location(comp, lp)
            # for i in range(len(L)): x = L[i]; <yield>      ==      for i, x in enumerate(L): <yield>
            if len(body) == 1 and isinstance(body[0], ast.For) and not body[0].orelse and len(body[0].body) == 2 \
                    and isinstance(body[0].target, ast.Name) and isinstance(body[0].iter, ast.Call) and src(body[0].iter.func) == "range" \
                    and len(body[0].iter.args) == 1 and isinstance(body[0].iter.args[0], ast.Call) and src(body[0].iter.args[0].func) == "len" \
                    and (nested_ok or g.self_name == f.self_name):
                lp = body[0]
                seq = body[0].iter.args[0].args[0]
                first = lp.body[0]
                if isinstance(first, ast.Assign) and len(first.targets) == 1 and isinstance(first.targets[0], ast.Name) \
                        and isinstance(first.value, ast.Subscript) and src(first.value.value) == src(seq) \
                        and src(first.value.slice) == lp.target.id and yielded(lp.body[1]) is not None:
                    tgt = ast.Tuple(elts=[ast.Name(id=lp.target.id, ctx=ast.Store()), ast.Name(id=first.targets[0].id, ctx=ast.Store())], ctx=ast.Store())
                    it = ast.Call(func=ast.Name(id="enumerate", ctx=ast.Load()), args=[seq], keywords=[])
                    comp = ast.GeneratorExp(elt=yielded(lp.body[1]), generators=[ast.comprehension(target=tgt, iter=it, ifs=[], is_async=0)])
                    return ast.fix_missing_locations(ast.copy_location(comp, lp))
    return None


def expand_all(e, flow, keep=()):
    """structural copy of expression ``e`` (a node of the analysed tree) in which every local name that has one plain definition
    is replaced by that definition, recursively; names in ``keep`` stay.  Used to compare expressions modulo named intermediate values
    (`n = len(s); range(n)` reads as `range(len(s))`)."""
    def go(x, depth):
        if isinstance(x, list):
            return [go(y, depth) for y in x]
        if not isinstance(x, ast.AST):
            return x
        if isinstance(x, (ast.expr_context, ast.operator, ast.unaryop, ast.boolop, ast.cmpop)):
            return x
        if isinstance(x, ast.Name) and isinstance(x.ctx, ast.Load) and x.id not in keep and depth < 6:
            ex = flow.expand(x)
            if ex is not x and not isinstance(ex, ast.Name):
                return go(ex, depth + 1)
        new = type(x)()
        for name in x._fields:
            if hasattr(x, name):
                setattr(new, name, go(getattr(x, name), depth))
        for name in x._attributes:
            if hasattr(x, name):
                setattr(new, name, getattr(x, name))
        return new
    return go(e, 0)



def alias_classes(fnode, self_name=None):
    """same(a, b): do the two simple expressions (a local name or `self.<field>`) name one object?  Classes are built from the plain
    copies of the function -- `a = b`, `self.x = b`, `a, self.y = b, c` -- between names / fields that are each assigned exactly once
    (what the inliner produces when it binds parameters and returned tuples).  Two different texts in one class are one list."""
    def key(e):
        if isinstance(e, ast.Name):
            return e.id
        if isinstance(e, ast.Attribute) and isinstance(e.value, ast.Name) and (self_name is None or e.value.id == self_name):
            return f"{e.value.id}.{e.attr}"
        return None
    counts = {}
    pairs = []
    for n in ast.walk(fnode):
        if isinstance(n, (ast.FunctionDef, ast.AsyncFunctionDef, ast.Lambda)) and n is not fnode:
            continue
        if isinstance(n, ast.Assign) and len(n.targets) == 1:
            t, v = n.targets[0], n.value
            items = list(zip(t.elts, v.elts)) if isinstance(t, (ast.Tuple, ast.List)) and isinstance(v, (ast.Tuple, ast.List)) \
                and len(t.elts) == len(v.elts) else [(t, v)]
            for a, b in items:
                ka = key(a)
                if ka is not None:
                    counts[ka] = counts.get(ka, 0) + 1
                    if key(b) is not None:
                        pairs.append((ka, key(b)))
        elif isinstance(n, (ast.AugAssign, ast.AnnAssign, ast.For, ast.comprehension, ast.With)):
            for x in ast.walk(getattr(n, "target", None) or ast.Pass()):
                k = key(x) if isinstance(x, (ast.Name, ast.Attribute)) else None
                if k is not None:
                    counts[k] = counts.get(k, 0) + 2
    parent = {}

    def find(x):
        parent.setdefault(x, x)
        while parent[x] != x:
            parent[x] = parent[parent[x]]
            x = parent[x]
        return x
    for a, b in pairs:
        if counts.get(a, 0) == 1 and counts.get(b, 0) <= 1:
            parent[find(a)] = find(b)

    def same(e1, e2) -> bool:
        k1, k2 = (key(e1) if isinstance(e1, ast.AST) else e1), (key(e2) if isinstance(e2, ast.AST) else e2)
        if k1 is None or k2 is None:
            return isinstance(e1, ast.AST) and isinstance(e2, ast.AST) and src(e1) == src(e2)
        return k1 == k2 or find(k1) == find(k2)
    return same
