"""Small AST helpers shared by the rule modules."""
from __future__ import annotations

import ast
from typing import Iterable, Iterator, List, Optional, Tuple

from .model import Func, Program, walk_own
from .resolve import Scope, dotted, kwarg, const_value


def calls_in(fn_or_node, own_only=True) -> Iterator[ast.Call]:
    it = walk_own(fn_or_node) if own_only and hasattr(fn_or_node, "body") else ast.walk(fn_or_node)
    for n in it:
        if isinstance(n, ast.Call):
            yield n


def is_self_attr(e: ast.expr, self_name: Optional[str], attr: Optional[str] = None) -> bool:
    return isinstance(e, ast.Attribute) and isinstance(e.value, ast.Name) and e.value.id == self_name \
        and (attr is None or e.attr == attr)


def self_field(e: ast.expr, self_name: Optional[str]) -> Optional[str]:
    if isinstance(e, ast.Attribute) and isinstance(e.value, ast.Name) and e.value.id == self_name:
        return e.attr
    return None


def ext_name(prog: Program, f: Func, call: ast.Call) -> Optional[str]:
    return prog.external_name(f.mod, call.func)


def method_call(e: ast.expr, names: Iterable[str] = ()) -> Optional[Tuple[ast.expr, str, ast.Call]]:
    """(receiver, method name, call) when ``e`` is ``recv.name(...)``"""
    if isinstance(e, ast.Call) and isinstance(e.func, ast.Attribute):
        if not names or e.func.attr in names:
            return e.func.value, e.func.attr, e
    return None


def returns_of(fn_node) -> List[ast.Return]:
    return [n for n in walk_own(fn_node) if isinstance(n, ast.Return)]


def open_mode(call: ast.Call) -> Optional[str]:
    m = kwarg(call, "mode", 1)
    if m is None:
        return "r"
    v = const_value(m)
    return v if isinstance(v, str) else None


def stmts_of(fn_node) -> Iterator[ast.stmt]:
    for n in walk_own(fn_node):
        if isinstance(n, ast.stmt):
            yield n


def assigned_targets(st: ast.stmt) -> List[ast.expr]:
    if isinstance(st, ast.Assign):
        out = []
        for t in st.targets:
            out.extend(t.elts if isinstance(t, (ast.Tuple, ast.List)) else [t])
        return out
    if isinstance(st, (ast.AugAssign, ast.AnnAssign)):
        return [st.target]
    return []


def src(n) -> str:
    try:
        return ast.unparse(n)
    except Exception:
        return "<?>"


def norm(n) -> str:
    """position-free structural key of an AST node"""
    return ast.dump(n, annotate_fields=False, include_attributes=False)


def assigned_value(target) -> Optional[ast.expr]:
    """the expression assigned to ``target`` (a node in store context), looking through tuple targets
    (``a.x, a.y = k, v`` assigns ``v`` to ``a.y``); None when the target is not the target of an assignment
    statement or the right-hand side is not a literal tuple of matching arity"""
    path = []
    n = target
    p = getattr(n, "_parent", None)
    while isinstance(p, (ast.Tuple, ast.List, ast.Starred)):
        path.append((p, n))
        n, p = p, getattr(p, "_parent", None)
    if isinstance(p, (ast.Assign, ast.AnnAssign, ast.NamedExpr)):
        val = p.value
    else:
        return None
    for tup, child in reversed(path):
        if isinstance(tup, ast.Starred) or val is None:
            return None
        if isinstance(val, (ast.Tuple, ast.List)) and len(val.elts) == len(tup.elts) \
                and not any(isinstance(e, ast.Starred) for e in list(val.elts) + list(tup.elts)):
            val = val.elts[[i for i, e in enumerate(tup.elts) if e is child][0]]
        else:
            return None
    return val


def iter_stores(fn_node):
    """(target, value or None, statement) for every assignment in a function body; tuple targets are flattened and
    paired with the elements of a literal tuple on the right-hand side"""
    for n in walk_own(fn_node):
        if isinstance(n, ast.Assign):
            for t in n.targets:
                yield from _flatten_target(t, n.value, n)
        elif isinstance(n, ast.AnnAssign) and n.value is not None:
            yield n.target, n.value, n
        elif isinstance(n, ast.AugAssign):
            yield n.target, None, n


def _flatten_target(t, val, stmt):
    if isinstance(t, (ast.Tuple, ast.List)):
        lit = isinstance(val, (ast.Tuple, ast.List)) and len(val.elts) == len(t.elts) \
            and not any(isinstance(e, ast.Starred) for e in list(val.elts) + list(t.elts))
        for i, el in enumerate(t.elts):
            yield from _flatten_target(el.value if isinstance(el, ast.Starred) else el, val.elts[i] if lit else None, stmt)
    else:
        yield t, val, stmt


def _is_manager_ctor(prog, f, e) -> bool:
    """Manager(), <context>.Manager(), SyncManager(), optionally followed by .__enter__() / .start()"""
    while isinstance(e, ast.Call) and isinstance(e.func, ast.Attribute) and e.func.attr in ("__enter__", "start"):
        e = e.func.value
    if isinstance(e, ast.Call):
        name = ext_name(prog, f, e) or src(e.func)
        return name.split(".")[-1] in ("Manager", "SyncManager")
    return False


def manager_fields(prog, cls) -> set:
    """fields of ``cls`` (along its repo MRO) that are assigned a multiprocessing manager: found by the constructor call, not by name"""
    out = set()
    for k in cls.repo_mro():
        for f in k.methods.values():
            if f.self_name is None:
                continue
            for t, val, _st in iter_stores(f.node):
                d = dotted(t)
                if d and len(d) == 2 and d[0] == f.self_name and val is not None and _is_manager_ctor(prog, f, val):
                    out.add(d[1])
    return out


def is_manager_expr(e, self_name, mgr_fields) -> bool:
    d = dotted(e)
    return bool(d) and len(d) == 2 and d[0] == self_name and d[1] in mgr_fields


def before(root, a, b) -> bool:
    """``a`` comes before ``b`` in the source order of the tree under ``root`` (pre-order position, not line numbers: the
    statements of an inlined helper keep their own lines)"""
    pos = getattr(root, "_order_index", None)
    if pos is None:
        pos = {}

        def go(n):
            pos[id(n)] = len(pos)
            for ch in ast.iter_child_nodes(n):
                go(ch)
        go(root)
        try:
            root._order_index = pos
        except Exception:
            pass
    return pos.get(id(a), -1) < pos.get(id(b), -1)


def comprehension_of(fn_node, name: str):
    """the list a local is built as, when it is built the long way:   L = []  ...  for t in it: L.append(E)   with nothing
    else touching L before it is used (the loop may sit inside a `with`): returns the equivalent ListComp node, else None"""
    inits, loops, other = [], [], []
    for n in walk_own(fn_node):
        if isinstance(n, ast.Assign) and any(isinstance(t, ast.Name) and t.id == name for t in n.targets):
            (inits if isinstance(n.value, ast.List) and not n.value.elts else other).append(n)
        elif isinstance(n, (ast.AugAssign, ast.Delete)) and any(isinstance(x, ast.Name) and x.id == name for x in ast.walk(n)):
            other.append(n)
        elif isinstance(n, ast.Call) and isinstance(n.func, ast.Attribute) and isinstance(n.func.value, ast.Name) and n.func.value.id == name:
            if n.func.attr == "append" and len(n.args) == 1 and not n.keywords:
                st = getattr(n, "_parent", None)
                if isinstance(st, ast.Expr):
                    # for a in A: [for b in B:] [if c:] L.append(E)      (every level holds exactly the next one, no else arms)
                    chain, cur, up = [], st, getattr(st, "_parent", None)
                    lead_env = None
                    if isinstance(up, ast.For) and not up.orelse and len(up.body) > 1 and up.body[-1] is st \
                            and all(isinstance(x, ast.Assign) and len(x.targets) == 1 and isinstance(x.targets[0], ast.Name) for x in up.body[:-1]):
                        # single = (e,); L.append((key(single), 1, single, i)): locals of one round, read in place
                        lead_env = {}
                        for x in up.body[:-1]:
                            lead_env[x.targets[0].id] = _subst_names(x.value, lead_env)
                        outside = sum(1 for n2 in ast.walk(fn_node) if isinstance(n2, ast.Name) and n2.id in lead_env) - \
                            sum(1 for n2 in ast.walk(up) if isinstance(n2, ast.Name) and n2.id in lead_env)
                        if outside == 0:
                            chain.append(up)
                            cur, up = up, getattr(up, "_parent", None)
                        else:
                            lead_env = None
                    while isinstance(up, (ast.For, ast.If)) and up.body == [cur] and not up.orelse:
                        chain.append(up)
                        cur, up = up, getattr(up, "_parent", None)
                    while chain and isinstance(chain[-1], ast.If):
                        chain.pop()                       # an `if` around the whole loop is not part of the comprehension
                    if chain:
                        loops.append((chain[::-1], _subst_names(n.args[0], lead_env) if lead_env else n.args[0]))
                        continue
            other.append(n)
    if len(inits) != 1 or len(loops) != 1 or other:
        return None
    levels, elt = loops[0]
    gens = []
    for lv in levels:
        if isinstance(lv, ast.For):
            gens.append(ast.comprehension(target=lv.target, iter=lv.iter, ifs=[], is_async=0))
        else:
            gens[-1].ifs.append(lv.test)
    comp = ast.ListComp(elt=elt, generators=gens)
    return ast.copy_location(comp, levels[0])


def path_of(e, flow, keep=()):
    """dotted path of ``e`` in which a leading local that merely names another path (`item = node.data`) is replaced by that path
    (repeatedly); names in ``keep`` (self, parameters of interest) are never expanded.  None when ``e`` is not a dotted path."""
    d = dotted(e)
    if not d:
        return None
    root = e
    while isinstance(root, ast.Attribute):
        root = root.value
    seen = 0
    path = tuple(d)
    while isinstance(root, ast.Name) and root.id not in keep and isinstance(root.ctx, ast.Load) and seen < 6:
        ex = flow.expand(root)
        if ex is root:
            break
        dx = dotted(ex)
        if not dx:
            break
        path = tuple(dx) + path[1:]
        root = ex
        while isinstance(root, ast.Attribute):
            root = root.value
        seen += 1
    return path


def constructor_only_helpers(cls) -> set:
    """names of private methods of ``cls`` whose every call site inside the class is in __init__ or in another such helper:
    they are part of the constructor (an extracted piece of it)"""
    calls = {}      # callee name -> set of caller names
    for g in cls.methods.values():
        if g.self_name is None and not g.is_static:
            continue
        for c in ast.walk(g.node):
            if isinstance(c, ast.Call) and isinstance(c.func, ast.Attribute) and isinstance(c.func.value, ast.Name) \
                    and c.func.value.id in ((g.self_name,) if g.self_name else ()) + (cls.name,):
                calls.setdefault(c.func.attr, set()).add(g.name)
    out = set()
    changed = True
    while changed:
        changed = False
        for name, callers in calls.items():
            if name in out or name not in cls.methods or not name.startswith("_") or name.startswith("__"):
                continue
            if callers and all(c == "__init__" or c in out for c in callers):
                out.add(name)
                changed = True
    return out


def as_comprehension(prog, cls, f, e):
    """the generator expression / comprehension ``e`` stands for: ``e`` itself, a local bound to one, or a call of a parameterless
    generator method of ``cls`` whose body is a single `for ...: yield <expr>` loop (returned as the equivalent GeneratorExp)"""
    from .flow import Flow
    if isinstance(e, (ast.GeneratorExp, ast.ListComp)):
        return e
    if isinstance(e, ast.Name):
        ex = Flow(f.node).expand(e)
        if ex is not e and not (isinstance(ex, ast.List) and not ex.elts):
            return as_comprehension(prog, cls, f, ex)
        return comprehension_of(f.node, e.id)
    g = None
    nested_ok = False
    binding = {}
    if isinstance(e, ast.Call) and isinstance(e.func, ast.Name) and not e.keywords and e.func.id in getattr(f, "nested", {}):
        g = f.nested[e.func.id]                   # a generator function defined inside f (it sees f's `self`)
        nested_ok = True
        params = list(g.params)
    elif isinstance(e, ast.Call) and isinstance(e.func, ast.Attribute) and isinstance(e.func.value, ast.Name) \
            and e.func.value.id == f.self_name and not e.keywords and cls is not None:
        g = prog.resolve(cls, e.func.attr)
        params = list(g.params[1:]) if g is not None else []
    if g is None or not g.is_generator or not (nested_ok or g.self_name == f.self_name):
        return None
    # arguments that are plain paths / names are read in place of the parameters (which the helper must not re-bind)
    if len(e.args) != len(params) or any(isinstance(a, ast.Starred) or dotted(a) is None for a in e.args):
        return None
    rebound = {n.id for n in ast.walk(g.node) if isinstance(n, ast.Name) and isinstance(n.ctx, (ast.Store, ast.Del))}
    if rebound & set(params):
        return None
    binding = dict(zip(params, e.args))
    body = [st for st in g.node.body if not (isinstance(st, ast.Expr) and isinstance(st.value, ast.Constant))]
    if not (len(body) == 1 and isinstance(body[0], ast.For) and not body[0].orelse):
        return None
    lp = body[0]
    elt = fold_loop_body(lp, g.node)
    if elt is None:
        return None
    comp = ast.GeneratorExp(elt=elt, generators=[ast.comprehension(target=lp.target, iter=lp.iter, ifs=[], is_async=0)])
    comp = ast.fix_missing_locations(ast.copy_location(comp, lp))
    if binding:
        comp = _subst_names(comp, binding)
    # for i in range(len(L)): ... L[i] ...      ==      for i, x in enumerate(L): ... x ...
    gen = comp.generators[0]
    if isinstance(gen.target, ast.Name) and isinstance(gen.iter, ast.Call) and src(gen.iter.func) == "range" and len(gen.iter.args) == 1 \
            and isinstance(gen.iter.args[0], ast.Call) and src(gen.iter.args[0].func) == "len" and len(gen.iter.args[0].args) == 1:
        seq = gen.iter.args[0].args[0]
        i = gen.target.id
        item = f"_item_{i}"
        hits = [0]

        class _Sub(ast.NodeTransformer):
            def visit_Subscript(self_, n):
                if src(n.value) == src(seq) and isinstance(n.slice, ast.Name) and n.slice.id == i and isinstance(n.ctx, ast.Load):
                    hits[0] += 1
                    return ast.copy_location(ast.Name(id=item, ctx=ast.Load()), n)
                return self_.generic_visit(n)
        new_elt = _Sub().visit(_copy(comp.elt))
        if hits[0]:
            tgt = ast.Tuple(elts=[ast.Name(id=i, ctx=ast.Store()), ast.Name(id=item, ctx=ast.Store())], ctx=ast.Store())
            it = ast.Call(func=ast.Name(id="enumerate", ctx=ast.Load()), args=[seq], keywords=[])
            comp = ast.GeneratorExp(elt=new_elt, generators=[ast.comprehension(target=tgt, iter=it, ifs=[], is_async=0)])
            comp = ast.fix_missing_locations(ast.copy_location(comp, lp))
    return comp


def _copy(e):
    import copy
    return copy.deepcopy(e)


def _subst_names(e, env):
    """copy of expression ``e`` with every loaded name in ``env`` replaced by (a copy of) its expression"""
    class _S(ast.NodeTransformer):
        def visit_Name(self_, n):
            if isinstance(n.ctx, ast.Load) and n.id in env:
                return ast.copy_location(_copy(env[n.id]), n)
            return n
    return ast.fix_missing_locations(_S().visit(_copy(e)))


def fold_loop_body(lp: ast.For, fn_node) -> Optional[ast.expr]:
    """the one expression a loop body yields per round, when the body is straight-line code over locals that live for one round:
         x = A;  if c: x = B  [else: x = C];  yield x           ->       (B if c else C') with the earlier bindings read in place
    Accepted statements: `name = E`, `if` whose arms are again such statements, and a final `yield E` (or an if/else of two
    yields).  A name that is read before the round binds it (state carried from round to round) is not accepted: None."""
    targets = {n.id for n in ast.walk(lp.target) if isinstance(n, ast.Name)}

    def assigns(stmts, env) -> bool:
        for st in stmts:
            if isinstance(st, ast.Assign) and len(st.targets) == 1 and isinstance(st.targets[0], ast.Name):
                if not reads_ok(st.value, env):
                    return False
                env[st.targets[0].id] = _subst_names(st.value, env)
            elif isinstance(st, ast.If):
                if not reads_ok(st.test, env):
                    return False
                e1, e2 = dict(env), dict(env)
                if not assigns(st.body, e1) or not assigns(st.orelse, e2):
                    return False
                test = _subst_names(st.test, env)
                for nm in set(e1) | set(e2):
                    a, b = e1.get(nm), e2.get(nm)
                    if a is env.get(nm) and b is env.get(nm):
                        continue
                    if a is None or b is None:
                        if nm not in targets:
                            return False                  # bound on one arm only and not a loop variable: carried state
                        a = a if a is not None else ast.Name(id=nm, ctx=ast.Load())
                        b = b if b is not None else ast.Name(id=nm, ctx=ast.Load())
                    env[nm] = ast.fix_missing_locations(ast.copy_location(ast.IfExp(test=_copy(test), body=a, orelse=b), st))
            elif isinstance(st, ast.Pass):
                continue
            else:
                return False
        return True
    body_stores = {n.id for st in lp.body for n in ast.walk(st) if isinstance(n, ast.Name) and isinstance(n.ctx, ast.Store)}

    def reads_ok(e, env) -> bool:
        # a name the body binds may be read only once this round has bound it (or it is a loop variable)
        return all(not (isinstance(n, ast.Name) and isinstance(n.ctx, ast.Load) and n.id in body_stores and n.id not in env and n.id not in targets)
                   for n in ast.walk(e))

    def yielded(st, env):
        if isinstance(st, ast.Expr) and isinstance(st.value, ast.Yield) and st.value.value is not None:
            return _subst_names(st.value.value, env) if reads_ok(st.value.value, env) else None
        if isinstance(st, ast.If) and len(st.body) >= 1 and len(st.orelse) >= 1 and reads_ok(st.test, env):
            e1, e2 = dict(env), dict(env)
            if not assigns(st.body[:-1], e1) or not assigns(st.orelse[:-1], e2):
                return None
            a_, b_ = yielded(st.body[-1], e1), yielded(st.orelse[-1], e2)
            if a_ is not None and b_ is not None:
                return ast.fix_missing_locations(ast.copy_location(ast.IfExp(test=_subst_names(st.test, env), body=a_, orelse=b_), st))
        return None
    if not lp.body:
        return None
    if any(isinstance(n, (ast.Yield, ast.YieldFrom)) for st in lp.body[:-1] for n in ast.walk(st)):
        return None
    env: dict = {}
    if not assigns(lp.body[:-1], env):
        return None
    return yielded(lp.body[-1], env)


def expand_all(e, flow, keep=()):
    """structural copy of expression ``e`` (a node of the analysed tree) in which every local name that has one plain definition
    is replaced by that definition, recursively; names in ``keep`` stay.  Used to compare expressions modulo named intermediate values
    (`n = len(s); range(n)` reads as `range(len(s))`)."""
    def go(x, depth):
        if isinstance(x, list):
            return [go(y, depth) for y in x]
        if not isinstance(x, ast.AST):
            return x
        if isinstance(x, (ast.expr_context, ast.operator, ast.unaryop, ast.boolop, ast.cmpop)):
            return x
        if isinstance(x, ast.Name) and isinstance(x.ctx, ast.Load) and x.id not in keep and depth < 6:
            ex = flow.expand(x)
            if ex is not x and not isinstance(ex, ast.Name):
                return go(ex, depth + 1)
        new = type(x)()
        for name in x._fields:
            if hasattr(x, name):
                setattr(new, name, go(getattr(x, name), depth))
        for name in x._attributes:
            if hasattr(x, name):
                setattr(new, name, getattr(x, name))
        return new
    return go(e, 0)



def alias_classes(fnode, self_name=None):
    """same(a, b): do the two simple expressions (a local name or `self.<field>`) name one object?  Classes are built from the plain
    copies of the function -- `a = b`, `self.x = b`, `a, self.y = b, c` -- between names / fields that are each assigned exactly once
    (what the inliner produces when it binds parameters and returned tuples).  Two different texts in one class are one list."""
    def key(e):
        if isinstance(e, ast.Name):
            return e.id
        if isinstance(e, ast.Attribute) and isinstance(e.value, ast.Name) and (self_name is None or e.value.id == self_name):
            return f"{e.value.id}.{e.attr}"
        return None
    counts = {}
    pairs = []
    for n in ast.walk(fnode):
        if isinstance(n, (ast.FunctionDef, ast.AsyncFunctionDef, ast.Lambda)) and n is not fnode:
            continue
        if isinstance(n, ast.Assign) and len(n.targets) == 1:
            t, v = n.targets[0], n.value
            items = list(zip(t.elts, v.elts)) if isinstance(t, (ast.Tuple, ast.List)) and isinstance(v, (ast.Tuple, ast.List)) \
                and len(t.elts) == len(v.elts) else [(t, v)]
            for a, b in items:
                ka = key(a)
                if ka is not None:
                    counts[ka] = counts.get(ka, 0) + 1
                    if key(b) is not None:
                        pairs.append((ka, key(b)))
        elif isinstance(n, (ast.AugAssign, ast.AnnAssign, ast.For, ast.comprehension, ast.With)):
            for x in ast.walk(getattr(n, "target", None) or ast.Pass()):
                k = key(x) if isinstance(x, (ast.Name, ast.Attribute)) else None
                if k is not None:
                    counts[k] = counts.get(k, 0) + 2
    parent = {}

    def find(x):
        parent.setdefault(x, x)
        while parent[x] != x:
            parent[x] = parent[parent[x]]
            x = parent[x]
        return x
    for a, b in pairs:
        if counts.get(a, 0) == 1 and counts.get(b, 0) <= 1:
            parent[find(a)] = find(b)

    def same(e1, e2) -> bool:
        k1, k2 = (key(e1) if isinstance(e1, ast.AST) else e1), (key(e2) if isinstance(e2, ast.AST) else e2)
        if k1 is None or k2 is None:
            return isinstance(e1, ast.AST) and isinstance(e2, ast.AST) and src(e1) == src(e2)
        return k1 == k2 or find(k1) == find(k2)
    return same
