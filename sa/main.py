"""Entry point: ``./check <Cxx> [--tier quick|thorough]`` and ``./check --replay <file>``."""
from __future__ import annotations

import argparse
import importlib
import json
import os
import sys
import time
import traceback

from .model import AnalysisError, Program
from .report import Report, finish

PROPS = [f"C{n:02d}" for n in range(1, 21)]


def run_property(prop: str, tier: str, prog: Program = None, write=True, quiet=False) -> int:
    t0 = time.time()
    seed = int(os.environ.get("VERIF_SEED", "0") or 0)
    rep = Report(prop, tier)
    try:
        if prog is None:
            prog = Program()
        mod = importlib.import_module(f"sa.rules.{prop.lower()}")
        mod.run(prog, rep)
        if tier == "thorough":
            from . import thorough
            thorough.run(prop, prog, rep)
    except AnalysisError as e:
        rep.error(str(e))
    except Exception as e:  # a traceback must never look like a violation
        tb = traceback.format_exc().strip().splitlines()
        rep.error(f"internal error: {type(e).__name__}: {e} @ {tb[-3].strip() if len(tb) >= 3 else ''}")
        if os.environ.get("VERIF_DEBUG"):
            traceback.print_exc()
    if os.environ.get("VERIF_NO_WRITE"):
        write = False
    return finish(rep, prog, t0, seed, write=write, quiet=quiet)


def main(argv=None) -> int:
    ap = argparse.ArgumentParser(prog="check")
    ap.add_argument("prop", nargs="?")
    ap.add_argument("--tier", default=os.environ.get("VERIF_TIER", "quick"), choices=["quick", "thorough"])
    ap.add_argument("--replay")
    ap.add_argument("--all", action="store_true")
    a = ap.parse_args(argv)
    if a.replay:
        data = json.loads(open(a.replay).read())
        prop = data["property"]
        rep = Report(prop, "quick")
        prog = Program()
        mod = importlib.import_module(f"sa.rules.{prop.lower()}")
        mod.run(prog, rep)
        hit = [i for i in rep.instances if i.key == data["key"]]
        if not hit:
            print(f"replay: instance {data['key']} no longer exists on the current tree")
            return 2
        for i in hit:
            print(json.dumps(i.as_dict(), indent=1, default=str))
        return 1 if any(i.verdict == "VIOLATION" for i in hit) else 0
    if a.all:
        worst = 0
        prog = Program()
        for p in PROPS:
            try:
                importlib.import_module(f"sa.rules.{p.lower()}")
            except ModuleNotFoundError:
                continue
            worst = max(worst, run_property(p, a.tier, prog))
        return worst
    if not a.prop:
        ap.error("property id required")
    return run_property(a.prop.upper(), a.tier)


def _alarm(signum, frame):  # a check must never hang: fail closed, but not as a violation
    print("ANALYSIS-ERROR internal: analysis exceeded its time budget")
    os._exit(2)


if __name__ == "__main__":
    import signal
    signal.signal(signal.SIGALRM, _alarm)
    signal.alarm(int(os.environ.get("VERIF_TIME_BUDGET", "600")))
    try:
        code = main()
    except SystemExit:
        raise
    except BaseException as e:  # pragma: no cover
        print(f"ANALYSIS-ERROR internal: {type(e).__name__}: {e}")
        code = 2
    sys.exit(code)
