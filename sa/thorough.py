"""Thorough tier: the property's rules plus checker self-validation on the tree under test.

(1) behaviour-preserving whole-program edits (sa.selfcheck) must leave every instance OK — a rule that fires on, or
    cannot read, a benign variant is brittle and the run is an ANALYSIS-ERROR;
(2) rule liveness: every recorded breaking change that this property's check is known to detect (seeded/*/patch.diff
    and selfcheck/breakers.json, applied in memory to the *current* sources) must still produce a VIOLATION — a rule
    that has gone blind is an ANALYSIS-ERROR.  A recorded change that no longer applies to the current sources is
    counted as stale and skipped (the repository moved on), never guessed at.
Nothing is written outside /verif/evidence; variants exist only in memory.
"""
from __future__ import annotations

import importlib
import json
import os
import pathlib
import re
from concurrent.futures import ProcessPoolExecutor
from typing import Dict, List, Optional, Tuple

from .model import AnalysisError, Program, repo_root
from .report import OK, UNRECOGNISED, VIOLATION, Report, VERIF
from .selfcheck import TRANSFORMS, variant_overlay


class StalePatch(Exception):
    pass


def apply_unified(diff_text: str, read) -> Dict[str, str]:
    """apply a unified diff in memory; ``read(relpath)`` returns the current text.  Exact context match required."""
    out: Dict[str, str] = {}
    files = re.split(r"^diff --git .*$", diff_text, flags=re.M)
    for sec in files:
        m = re.search(r"^\+\+\+ b/(\S+)", sec, flags=re.M)
        if not m:
            continue
        rel = m.group(1)
        try:
            text = out.get(rel) or read(rel)
        except OSError:
            raise StalePatch(f"{rel} does not exist")
        lines = text.split("\n")
        hunks = re.split(r"^@@ .*@@.*$", sec, flags=re.M)[1:]
        heads = re.findall(r"^@@ -(\d+)(?:,\d+)? \+\d+(?:,\d+)? @@", sec, flags=re.M)
        shift = 0
        for head, body in zip(heads, hunks):
            old, new = [], []
            for ln in body.split("\n")[1:]:
                if ln.startswith("\\"):
                    continue
                if ln.startswith("-"):
                    old.append(ln[1:])
                elif ln.startswith("+"):
                    new.append(ln[1:])
                elif ln.startswith(" ") or ln == "":
                    if ln == "" and not old and not new:
                        continue
                    old.append(ln[1:] if ln else "")
                    new.append(ln[1:] if ln else "")
            while old and new and old[-1] == "" and new[-1] == "":
                old.pop(); new.pop()
            start = int(head) - 1 + shift
            pos = None
            if lines[start:start + len(old)] == old:
                pos = start
            else:
                hits = [i for i in range(len(lines) - len(old) + 1) if lines[i:i + len(old)] == old]
                if len(hits) == 1:
                    pos = hits[0]
            if pos is None:
                raise StalePatch(f"hunk at line {head} of {rel} does not match the current source")
            lines[pos:pos + len(old)] = new
            shift += len(new) - len(old)
        out[rel] = "\n".join(lines)
    if not out:
        raise StalePatch("no file section in the patch")
    return out


def _run_rules(prop: str, overlay: Dict[str, str]) -> Tuple[str, List[str]]:
    prog = Program(overlay=overlay)
    rep = Report(prop)
    mod = importlib.import_module(f"sa.rules.{prop.lower()}")
    try:
        mod.run(prog, rep)
    except AnalysisError as e:
        rep.error(str(e))           # as in main.run_property: a violation recorded before the anchor was lost still counts
    from .report import load_known
    known = load_known().get(prop, {})
    viol = [i for i in rep.instances if i.verdict == VIOLATION and i.key not in known]
    unrec = [i for i in rep.instances if i.verdict == UNRECOGNISED]
    floors = [r for r, fl in rep.floors.items() if sum(1 for i in rep.instances if i.rule == r) < fl
              and all(i.verdict == OK for i in rep.instances if i.rule == r)]
    msgs = [f"{i.verdict} {i.rule} {i.construct} [{i.role}] {i.detail[:140]}" for i in viol + unrec] + \
           [f"floor {r}" for r in floors] + list(rep.errors)
    if viol:
        return "VIOLATION", msgs
    if unrec or floors or rep.errors:
        return "ANALYSIS-ERROR", msgs
    return "PASS", msgs


def _job(args):
    kind, prop, name, payload = args
    import signal
    signal.alarm(300)
    root = repo_root()
    try:
        if kind == "benign":
            ov = variant_overlay(root, name)
        else:
            def read(rel):
                return (root / rel).read_text(encoding="utf-8")
            if payload.get("diff"):
                ov = apply_unified(payload["diff"], read)
            else:
                txt = read(payload["file"])
                if txt.count(payload["old"]) != 1:
                    raise StalePatch("substitution anchor not found exactly once")
                ov = {payload["file"]: txt.replace(payload["old"], payload["new"])}
            for rel, src in ov.items():
                compile(src, rel, "exec")
        verdict, msgs = _run_rules(prop, ov)
        return kind, name, verdict, msgs
    except StalePatch as e:
        return kind, name, "STALE", [str(e)]
    except SyntaxError as e:
        return kind, name, "STALE", [f"variant does not compile: {e}"]
    except BaseException as e:  # noqa
        return kind, name, "ERROR", [f"{type(e).__name__}: {e}"]


def breakers_for(prop: str) -> List[Tuple[str, dict]]:
    out = []
    seeded = VERIF / "seeded"
    if seeded.is_dir():
        for d in sorted(seeded.iterdir()):
            meta_p, patch_p = d / "meta.json", d / "patch.diff"
            if not (meta_p.exists() and patch_p.exists()):
                continue
            try:
                meta = json.loads(meta_p.read_text())
            except Exception:
                continue
            fired = meta.get("static_checks", {}).get("fired", {})
            if prop in fired and fired[prop].get("exit") == 1:
                out.append((f"seeded/{d.name}", {"diff": patch_p.read_text()}))
    bj = VERIF / "selfcheck" / "breakers.json"
    if bj.exists():
        for b in json.loads(bj.read_text()):
            if b.get("property") == prop:
                out.append((f"breaker/{b['name']}", {"file": b["file"], "old": b["old"], "new": b["new"]}))
    return out


def twins_for(prop: str) -> List[Tuple[str, dict]]:
    """repaired twins of breaking changes (selfcheck/twins/<prop>-<name>.diff): the same new code with the defect removed; the
    check must be silent on them, which guards the generic analyses against alarming on correct additions"""
    out = []
    d = VERIF / "selfcheck" / "twins"
    if d.is_dir():
        for p in sorted(d.glob(f"{prop}-*.diff")):
            out.append((f"twin/{p.stem}", {"diff": p.read_text()}))
    # behaviour-preserving refactorings written by independent agents (extract helper, guard clauses, renames, idiom
    # replacements, additive code): every property's check must stay silent on every one of them
    d = VERIF / "selfcheck" / "refactorings"
    if d.is_dir():
        for p in sorted(d.glob("*.diff")):
            out.append((f"refactoring/{p.stem}", {"diff": p.read_text()}))
    return out


def run(prop: str, prog: Program, rep: Report):
    jobs = [("benign", prop, name, None) for name in TRANSFORMS]
    jobs += [("twin", prop, name, payload) for name, payload in twins_for(prop)]
    jobs += [("breaker", prop, name, payload) for name, payload in breakers_for(prop)]
    stats = {"benign": 0, "benign_silent": 0, "breakers": 0, "breakers_fired": 0, "stale": 0, "details": []}
    workers = min(16, max(1, len(jobs)))
    with ProcessPoolExecutor(max_workers=workers) as ex:
        results = list(ex.map(_job, jobs))
    for kind, name, verdict, msgs in results:
        if kind == "twin":
            if verdict == "STALE":
                stats["stale"] += 1
                stats["details"].append(f"{name}: stale ({msgs[0] if msgs else ''})")
                continue
            stats["benign"] += 1
            if verdict == "PASS":
                stats["benign_silent"] += 1
            else:
                rep.error(f"self-check: the repaired twin '{name}' (correct new code) makes the check report {verdict}: "
                          f"{'; '.join(msgs[:2])} (the rule alarms on code where the property holds)")
            continue
        if kind == "benign":
            stats["benign"] += 1
            if verdict == "PASS":
                stats["benign_silent"] += 1
            else:
                rep.error(f"self-check: behaviour-preserving edit '{name}' makes the check report {verdict}: "
                          f"{'; '.join(msgs[:2])} (brittle rule, not a defect of the repository)")
        else:
            if verdict == "STALE":
                stats["stale"] += 1
                stats["details"].append(f"{name}: stale ({msgs[0] if msgs else ''})")
                continue
            stats["breakers"] += 1
            if verdict == "VIOLATION":
                stats["breakers_fired"] += 1
            else:
                rep.error(f"self-check: known breaking change '{name}' is no longer reported as a violation ({verdict}): "
                          f"a rule of {prop} has gone blind")
    rep.selfcheck = stats
    rep.count("selfcheck_benign_variants", stats["benign"])
    rep.count("selfcheck_breakers", stats["breakers"])
    rep.count("selfcheck_breakers_fired", stats["breakers_fired"])
