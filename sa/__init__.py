"""Static analyser for windPyUtils (see /verif/DESIGN.md).

Nothing in this package imports or executes code of the analysed repository: every fact is derived
from the parsed source text (``ast``) of the working tree.
"""
