"""Canonicalisation of the parsed sources (behaviour-preserving), applied to every module before analysis.

The rules match semantic shapes; so that trivially different spellings of the same program present the same shape,
the loader rewrites:
  N1  x = x + c / x = x - c            ->  x += c / x -= c          (name and attribute targets)
  N2  superfluous `pass`               ->  removed                   (kept only in otherwise empty blocks)
  N3  if not c: A else: B              ->  if c: B else: A           (two-armed ifs; elif chains untouched)
  N4  t = E; return t                  ->  return E                  (t bound immediately before, used only there)
  N5  assert True / bare constants     ->  removed                   (expression statements that are constants, except docstrings)
  N8  x = []; for t in it: x.append(E)  ->  x = [E for t in it]   (the loop immediately follows the empty-list assignment)
  N7  logging.<...>(...) / warnings.<...>(...) statements -> removed    (calls rooted at the logging / warnings modules)
  N9  if c: T = a else: T = b  ->  T = a if c else b   (likewise two returns / two yields)
  N6  while True: if X: break; rest    ->  while not X: rest         (loops without else whose first statement is the exit test)
Line numbers of the surviving statements are preserved, so reports still point at the original source lines.
"""
from __future__ import annotations

import ast
from typing import List


def _same(a: ast.AST, b: ast.AST) -> bool:
    return ast.dump(a, annotate_fields=False).replace("Store()", "Load()") == ast.dump(b, annotate_fields=False).replace("Store()", "Load()")


class _N(ast.NodeTransformer):
    def visit_Assign(self, node: ast.Assign):
        self.generic_visit(node)
        if len(node.targets) == 1 and isinstance(node.targets[0], (ast.Name, ast.Attribute)) and isinstance(node.value, ast.BinOp) \
                and isinstance(node.value.op, (ast.Add, ast.Sub)):
            t, v = node.targets[0], node.value
            if _same(t, v.left):
                return ast.copy_location(ast.AugAssign(target=t, op=v.op, value=v.right), node)
            if isinstance(v.op, ast.Add) and _same(t, v.right) and isinstance(v.left, ast.Constant) and isinstance(v.left.value, (int, float)):
                return ast.copy_location(ast.AugAssign(target=t, op=v.op, value=v.left), node)
        return node

    def visit_While(self, node: ast.While):
        self.generic_visit(node)
        # N6: while True: if X: break; rest   ->   while not X: rest
        if isinstance(node.test, ast.Constant) and node.test.value is True and not node.orelse and node.body:
            first = node.body[0]
            if isinstance(first, ast.If) and not first.orelse and len(first.body) == 1 and isinstance(first.body[0], ast.Break) \
                    and len(node.body) > 1:
                t = first.test
                test = t.operand if isinstance(t, ast.UnaryOp) and isinstance(t.op, ast.Not) else ast.UnaryOp(op=ast.Not(), operand=t)
                return ast.copy_location(ast.While(test=test, body=node.body[1:], orelse=[]), node)
        return node

    def visit_If(self, node: ast.If):
        self.generic_visit(node)
        # N9: two single-statement arms doing the same thing with different values become one conditional expression
        if len(node.body) == 1 and len(node.orelse) == 1:
            a, b = node.body[0], node.orelse[0]
            if isinstance(a, ast.Assign) and isinstance(b, ast.Assign) and len(a.targets) == 1 and len(b.targets) == 1 \
                    and isinstance(a.targets[0], (ast.Name, ast.Attribute)) and _same(a.targets[0], b.targets[0]):
                return ast.copy_location(ast.Assign(targets=a.targets, value=ast.IfExp(test=node.test, body=a.value, orelse=b.value)), node)
            if isinstance(a, ast.Return) and isinstance(b, ast.Return) and a.value is not None and b.value is not None:
                return ast.copy_location(ast.Return(value=ast.IfExp(test=node.test, body=a.value, orelse=b.value)), node)
            if isinstance(a, ast.Expr) and isinstance(b, ast.Expr) and isinstance(a.value, ast.Yield) and isinstance(b.value, ast.Yield) \
                    and a.value.value is not None and b.value.value is not None:
                return ast.copy_location(ast.Expr(value=ast.Yield(value=ast.IfExp(test=node.test, body=a.value.value, orelse=b.value.value))), node)
        if node.orelse and not (len(node.orelse) == 1 and isinstance(node.orelse[0], ast.If)) \
                and isinstance(node.test, ast.UnaryOp) and isinstance(node.test.op, ast.Not):
            return ast.copy_location(ast.If(test=node.test.operand, body=node.orelse, orelse=node.body), node)
        return node

    def _block(self, stmts: List[ast.stmt], is_def_body=False) -> List[ast.stmt]:
        out: List[ast.stmt] = []
        for i, st in enumerate(stmts):
            if isinstance(st, ast.Pass):
                continue
            if isinstance(st, ast.Expr) and isinstance(st.value, ast.Constant) and not (is_def_body and i == 0 and isinstance(st.value.value, str)):
                if st.value.value is not Ellipsis:
                    continue
            if isinstance(st, ast.Assert) and isinstance(st.test, ast.Constant) and st.test.value is True:
                continue
            out.append(st)
        # N4: t = E; return t
        res: List[ast.stmt] = []
        i = 0
        while i < len(out):
            st = out[i]
            nxt = out[i + 1] if i + 1 < len(out) else None
            if isinstance(st, ast.Assign) and len(st.targets) == 1 and isinstance(st.targets[0], ast.Name) \
                    and isinstance(nxt, ast.Return) and isinstance(nxt.value, ast.Name) and nxt.value.id == st.targets[0].id \
                    and self._uses.get(st.targets[0].id, 0) == 1:
                res.append(ast.copy_location(ast.Return(value=st.value), st))
                i += 2
                continue
            res.append(st)
            i += 1
        # N8: x = []; for t in it: x.append(E)   ->   x = [E for t in it]
        res2: List[ast.stmt] = []
        i = 0
        while i < len(res):
            st = res[i]
            nxt = res[i + 1] if i + 1 < len(res) else None
            if isinstance(st, ast.Assign) and len(st.targets) == 1 and isinstance(st.targets[0], ast.Name) \
                    and isinstance(st.value, ast.List) and not st.value.elts and isinstance(nxt, ast.For) and not nxt.orelse \
                    and len(nxt.body) == 1 and isinstance(nxt.body[0], ast.Expr) and isinstance(nxt.body[0].value, ast.Call):
                c = nxt.body[0].value
                name = st.targets[0].id
                if isinstance(c.func, ast.Attribute) and c.func.attr == "append" and isinstance(c.func.value, ast.Name) \
                        and c.func.value.id == name and len(c.args) == 1 and not c.keywords \
                        and name not in {n.id for n in ast.walk(c.args[0]) if isinstance(n, ast.Name)} \
                        and name not in {n.id for n in ast.walk(nxt.iter) if isinstance(n, ast.Name)}:
                    comp = ast.ListComp(elt=c.args[0], generators=[ast.comprehension(target=nxt.target, iter=nxt.iter, ifs=[], is_async=0)])
                    res2.append(ast.copy_location(ast.Assign(targets=[ast.Name(id=name, ctx=ast.Store())], value=comp), st))
                    i += 2
                    continue
            res2.append(st)
            i += 1
        res = res2
        if not res:
            res = [ast.copy_location(ast.Pass(), stmts[0])] if stmts else []
        return res

    _uses: dict = {}

    def generic_visit(self, node):
        node = super().generic_visit(node)
        for fld in ("body", "orelse", "finalbody"):
            v = getattr(node, fld, None)
            if isinstance(v, list) and v and isinstance(v[0], ast.stmt):
                is_def = fld == "body" and isinstance(node, (ast.FunctionDef, ast.AsyncFunctionDef, ast.ClassDef, ast.Module))
                setattr(node, fld, self._block(v, is_def))
        if isinstance(node, ast.Try):
            for h in node.handlers:
                h.body = self._block(h.body)
        return node

    def visit_FunctionDef(self, node):
        saved = self._uses
        uses = {}
        for n in ast.walk(node):
            if isinstance(n, ast.Name) and isinstance(n.ctx, ast.Load):
                uses[n.id] = uses.get(n.id, 0) + 1
        self._uses = uses
        node = self.generic_visit(node)
        self._uses = saved
        return node

    visit_AsyncFunctionDef = visit_FunctionDef


INERT_MODULES = {"logging", "warnings"}


def _inert_roots(tree: ast.Module):
    """names bound to the logging / warnings modules, and module-level loggers (x = logging.getLogger(...))"""
    roots = set()
    for n in ast.walk(tree):
        if isinstance(n, ast.Import):
            for a in n.names:
                if a.name.split(".")[0] in INERT_MODULES:
                    roots.add(a.asname or a.name.split(".")[0])
        elif isinstance(n, ast.ImportFrom) and n.module and n.module.split(".")[0] in INERT_MODULES:
            for a in n.names:
                roots.add(a.asname or a.name)
    for n in tree.body:
        if isinstance(n, ast.Assign) and isinstance(n.value, ast.Call) and len(n.targets) == 1 and isinstance(n.targets[0], ast.Name):
            r = n.value.func
            while isinstance(r, (ast.Attribute, ast.Call)):
                r = r.value if isinstance(r, ast.Attribute) else r.func
            if isinstance(r, ast.Name) and r.id in roots:
                roots.add(n.targets[0].id)
    return roots


class _DropInert(ast.NodeTransformer):
    """N7: expression statements that only call into logging / warnings are dropped (they do not touch program state)"""

    def __init__(self, roots):
        self.roots = roots

    def visit_Expr(self, node):
        v = node.value
        if isinstance(v, ast.Call):
            r = v.func
            while isinstance(r, (ast.Attribute, ast.Call)):
                r = r.value if isinstance(r, ast.Attribute) else r.func
            if isinstance(r, ast.Name) and r.id in self.roots:
                return ast.copy_location(ast.Pass(), node)
        return node


def normalise(tree: ast.Module) -> ast.Module:
    roots = _inert_roots(tree)
    if roots:
        tree = _DropInert(roots).visit(tree)
    tree = _N().visit(tree)
    ast.fix_missing_locations(tree)
    return tree
