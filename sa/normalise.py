"""Canonicalisation of the parsed sources (behaviour-preserving), applied to every module before analysis.

The rules match semantic shapes; so that trivially different spellings of the same program present the same shape,
the loader rewrites:
  N1  x = x + c / x = x - c            ->  x += c / x -= c          (name and attribute targets)
  N2  superfluous `pass`               ->  removed                   (kept only in otherwise empty blocks)
  N3  if not c: A else: B              ->  if c: B else: A           (two-armed ifs; elif chains untouched)
  N4  t = E; return t                  ->  return E                  (t bound immediately before, used only there)
  N5  assert True / bare constants     ->  removed                   (expression statements that are constants, except docstrings)
  N8  x = []; for t in it: x.append(E)  ->  x = [E for t in it]   (the loop immediately follows the empty-list assignment)
  N7  logging.<...>(...) / warnings.<...>(...) statements -> removed    (calls rooted at the logging / warnings modules)
  N9  if c: T = a else: T = b  ->  T = a if c else b   (likewise two returns / two yields)
  N10 inside functions  target: T = value  ->  target = value
  N11 with contextlib.suppress(E): B  ->  try: B except E: pass
  N12 flag = True; loop (flag = False; break ...); if flag: T   ->   loop ... else: T      (flag used nowhere else)
  N14 d = {}; for t in it: d[K] = V  ->  d = {K: V for t in it}
  N15 while True: t = a.b; if C(t): break; REST  ->  while not C(a.b): t = a.b; REST   (leading read-only aliases)
  N16 for t in it: if C: return True;  return False  ->  return any(C for t in it)   (and the all() dual)
  N17 while True: if X: S; break; REST  ->  while not X: REST else: S
  N18 t = 0; for x in it: t += E  ->  t = sum(E for x in it)   (with  t += a / t -= b  arms folded into one conditional term)
  N13 x = list(E); x.sort(**kw)  ->  x = sorted(E, **kw)
  N6  while True: if X: break; rest    ->  while not X: rest         (loops without else whose first statement is the exit test)
  N31 for T in iter(F, None): BODY     ->  while True: t = F(); if t is None: break; T = t; BODY     (two-argument iter, None sentinel)
  N32 a = b = E                        ->  b = E; a = b              (chained assignment to names / plain attribute paths)
  N46 a local bound once in its function, to a constant  ->  read as the constant
  N45 if c: A else: break  ->  if not c: break; A       (an arm that is only `break`)
  N44 a, b = E1, E2  (names; no Ei reads a or b)  ->  a = E1; b = E2
  N43 NAME = <constant> at class / module level, bound once, never stored elsewhere  ->  read as the constant
  N42 while True: S; if X: break  ->  S; while not X: S      (the do-while form; S one or two plain statements)
  N41 while (t := E) ...: B  ->  while True: t = E; if not (t ...): break; B ;   if (t := E) ...: -> t = E; if t ...:
  N40 dict((K, V) for ...)             ->  {K: V for ...}
  N39 it = iter(X); while True: p = next(it, S); if p is S: break; BODY   ->   for p in X: BODY     (also the StopIteration form)
  N38 if c: A; return  REST  (function top level, bare return, A not empty)  ->  if c: A else: REST
  N37 list(<genexp>) / set(<genexp>)   ->  the list / set comprehension
  N36 i = A; while i < B: BODY; i += 1  ->  for i in range(A, B): BODY     (B not re-bound, no continue, i unused elsewhere)
  N35 not (a or b) / not (a and b) / not (x is y) ...  ->  De Morgan, exact negations pushed inwards
  N34 for T in (v for v in IT if C): B  ->  for T in IT: if C: B      (a filtering generator / list comprehension as the loop source)
  N33 list(map(F, IT))                 ->  [F(m) for m in IT]        (F a name / plain path; generator form under tuple, set, sorted, sum, any, all)
Line numbers of the surviving statements are preserved, so reports still point at the original source lines.
"""
from __future__ import annotations

import ast
from typing import List


def _same(a: ast.AST, b: ast.AST) -> bool:
    return ast.dump(a, annotate_fields=False).replace("Store()", "Load()") == ast.dump(b, annotate_fields=False).replace("Store()", "Load()")


_EXACT_NEG = {ast.Is: ast.IsNot, ast.IsNot: ast.Is, ast.In: ast.NotIn, ast.NotIn: ast.In, ast.Eq: ast.NotEq, ast.NotEq: ast.Eq}
_ORDER_NEG = {ast.Lt: ast.GtE, ast.GtE: ast.Lt, ast.Gt: ast.LtE, ast.LtE: ast.Gt}


def _intish(e) -> bool:
    return (isinstance(e, ast.Call) and isinstance(e.func, ast.Name) and e.func.id == "len") or \
        (isinstance(e, ast.Constant) and isinstance(e.value, int) and not isinstance(e.value, bool))


def _pure_path(e) -> bool:
    """a name or an attribute chain rooted at a name: reading it has no effect"""
    while isinstance(e, ast.Attribute):
        e = e.value
    return isinstance(e, ast.Name)


PURE_FUNCS = {"len", "isinstance", "issubclass", "bool", "int", "float", "str", "repr", "type", "id", "callable", "hasattr",
              "min", "max", "abs", "all", "any", "sum", "tuple", "frozenset", "range", "divmod", "round", "ord", "chr", "hash"}
PURE_METHODS = {"get", "keys", "values", "items", "index", "count", "copy", "tell", "getvalue", "startswith", "endswith", "is_set",
                "qsize", "empty", "full", "isdisjoint", "issubset", "issuperset", "find", "rfind", "lower", "upper", "strip",
                "rstrip", "lstrip", "split", "join", "format", "is_alive", "fileno", "readable", "writable", "seekable", "closed",
                "bit_length", "isdigit", "isalpha", "encode", "decode", "field_names", "field_types", "total_seconds"}


def _read_only(e) -> bool:
    """evaluating ``e`` changes nothing: no call other than the read-only builtins / methods above, no yield / await /
    walrus; generator expressions and comprehensions over read-only parts are read-only themselves"""
    for n in ast.walk(e):
        if isinstance(n, (ast.Yield, ast.YieldFrom, ast.Await, ast.NamedExpr, ast.Lambda)):
            return False
        if isinstance(n, ast.Call):
            f = n.func
            if isinstance(f, ast.Name) and f.id in PURE_FUNCS:
                continue
            if isinstance(f, ast.Attribute) and f.attr in PURE_METHODS:
                continue
            return False
    return True


def _clone(e):
    import copy
    return copy.deepcopy(e)


def _negate(t: ast.expr, eq_ok: bool = True) -> ast.expr:
    """logical negation pushed inwards where that is exact: `not not x`, is / in / == by definition, orderings when one side is a
    length or an integer literal (integers are totally ordered), and / or by De Morgan; otherwise `not (t)`"""
    if isinstance(t, ast.UnaryOp) and isinstance(t.op, ast.Not):
        return t.operand
    if isinstance(t, ast.Compare) and len(t.ops) == 1:
        op = type(t.ops[0])
        if op in _EXACT_NEG and (eq_ok or op not in (ast.Eq, ast.NotEq)):
            # (== / != are each other's negation for the builtin types; for a class that defines both they are two methods, so a
            # rewrite that is applied everywhere - N35 - leaves them alone)
            return ast.copy_location(ast.Compare(left=t.left, ops=[_EXACT_NEG[op]()], comparators=t.comparators), t)
        if op in _ORDER_NEG and (_intish(t.left) or _intish(t.comparators[0])):
            return ast.copy_location(ast.Compare(left=t.left, ops=[_ORDER_NEG[op]()], comparators=t.comparators), t)
    if isinstance(t, ast.BoolOp):
        return ast.copy_location(ast.BoolOp(op=ast.Or() if isinstance(t.op, ast.And) else ast.And(), values=[_negate(v, eq_ok) for v in t.values]), t)
    return ast.copy_location(ast.UnaryOp(op=ast.Not(), operand=t), t)


def _continue_to_else(body: List[ast.stmt]) -> List[ast.stmt]:
    """N24: inside a loop body   if c: S; continue   REST      ->      if c: S  else: REST      (the guard-clause form of a
    two-armed round); a trailing `continue` of the body itself is dropped"""
    out: List[ast.stmt] = []
    for i, st in enumerate(body):
        rest = body[i + 1:]
        if isinstance(st, ast.If) and not st.orelse and st.body and isinstance(st.body[-1], ast.Continue) and rest \
                and not any(isinstance(n, (ast.Continue, ast.Break)) for x in st.body[:-1] for n in ast.walk(x)):
            st.body = st.body[:-1] or [ast.copy_location(ast.Pass(), st)]
            st.orelse = _continue_to_else(rest)
            out.append(st)
            return out
        out.append(st)
    if out and isinstance(out[-1], ast.Continue) and len(out) > 1:
        out = out[:-1]
    return out


class _N(ast.NodeTransformer):
    def visit_Assign(self, node: ast.Assign):
        self.generic_visit(node)
        if len(node.targets) == 1 and isinstance(node.targets[0], (ast.Name, ast.Attribute)) and isinstance(node.value, ast.BinOp) \
                and isinstance(node.value.op, (ast.Add, ast.Sub)):
            t, v = node.targets[0], node.value
            if _same(t, v.left):
                return ast.copy_location(ast.AugAssign(target=t, op=v.op, value=v.right), node)
            if isinstance(v.op, ast.Add) and _same(t, v.right) and isinstance(v.left, ast.Constant) and isinstance(v.left.value, (int, float)):
                return ast.copy_location(ast.AugAssign(target=t, op=v.op, value=v.left), node)
        return node

    _in_func = 0
    _flag_n = 0

    def visit_AnnAssign(self, node: ast.AnnAssign):
        self.generic_visit(node)
        # N10: inside a function, `target: T = value` is `target = value` (the annotation of a local or attribute has no effect)
        if self._in_func and node.value is not None:
            return ast.copy_location(ast.Assign(targets=[node.target], value=node.value), node)
        return node

    def visit_With(self, node: ast.With):
        self.generic_visit(node)
        # N11: with contextlib.suppress(E1, E2): BODY   ->   try: BODY  except (E1, E2): pass
        if len(node.items) == 1 and node.items[0].optional_vars is None and isinstance(node.items[0].context_expr, ast.Call):
            c = node.items[0].context_expr
            fn = ast.unparse(c.func)
            if fn in ("suppress", "contextlib.suppress") and c.args and not c.keywords:
                typ = c.args[0] if len(c.args) == 1 else ast.Tuple(elts=list(c.args), ctx=ast.Load())
                h = ast.ExceptHandler(type=typ, name=None, body=[ast.copy_location(ast.Pass(), node)])
                ast.copy_location(h, node)
                return ast.copy_location(ast.Try(body=node.body, handlers=[h], orelse=[], finalbody=[]), node)
        return node

    def visit_For(self, node: ast.For):
        node.body = _continue_to_else(node.body)
        self.generic_visit(node)
        return self._loop_else(node)

    def visit_Call(self, node: ast.Call):
        self.generic_visit(node)
        # N37: list(<generator expression>)  ->  the list comprehension;  set(<generator expression>)  ->  the set comprehension
        if isinstance(node.func, ast.Name) and node.func.id in ("list", "set") and len(node.args) == 1 and not node.keywords \
                and isinstance(node.args[0], ast.GeneratorExp):
            ge = node.args[0]
            mk = ast.ListComp if node.func.id == "list" else ast.SetComp
            return ast.copy_location(mk(elt=ge.elt, generators=ge.generators), node)
        # N40: dict((K, V) for ...) / dict([(K, V) for ...])  ->  {K: V for ...}
        if isinstance(node.func, ast.Name) and node.func.id == "dict" and len(node.args) == 1 and not node.keywords \
                and isinstance(node.args[0], (ast.GeneratorExp, ast.ListComp)) and isinstance(node.args[0].elt, (ast.Tuple, ast.List)) \
                and len(node.args[0].elt.elts) == 2 and not any(isinstance(x, ast.Starred) for x in node.args[0].elt.elts):
            ge = node.args[0]
            return ast.copy_location(ast.DictComp(key=ge.elt.elts[0], value=ge.elt.elts[1], generators=ge.generators), node)
        # N33: list(map(F, IT))  ->  [F(_m) for _m in IT]       (F a name or a plain path, one iterable; likewise tuple / set /
        # sorted / sum / any / all over map(), as a generator expression)
        if isinstance(node.func, ast.Name) and node.func.id in ("list", "tuple", "set", "frozenset", "sorted", "sum", "any", "all") \
                and node.args and isinstance(node.args[0], ast.Call) and isinstance(node.args[0].func, ast.Name) \
                and node.args[0].func.id == "map" and len(node.args[0].args) == 2 and not node.args[0].keywords \
                and not any(isinstance(a, ast.Starred) for a in node.args[0].args) and _pure_path(node.args[0].args[0]):
            fn, it = node.args[0].args
            var = f"_m{node.lineno}"
            elt = ast.Call(func=fn, args=[ast.Name(id=var, ctx=ast.Load())], keywords=[])
            gens = [ast.comprehension(target=ast.Name(id=var, ctx=ast.Store()), iter=it, ifs=[], is_async=0)]
            if node.func.id == "list" and len(node.args) == 1 and not node.keywords:
                return ast.fix_missing_locations(ast.copy_location(ast.ListComp(elt=elt, generators=gens), node))
            node.args[0] = ast.fix_missing_locations(ast.copy_location(ast.GeneratorExp(elt=elt, generators=gens), node.args[0]))
            return node
        # N28: getattr(x, "name")  ->  x.name        (a literal identifier, no default)
        if isinstance(node.func, ast.Name) and node.func.id == "getattr" and len(node.args) == 2 and not node.keywords \
                and isinstance(node.args[1], ast.Constant) and isinstance(node.args[1].value, str) and node.args[1].value.isidentifier():
            return ast.copy_location(ast.Attribute(value=node.args[0], attr=node.args[1].value, ctx=ast.Load()), node)
        return node

    def visit_Compare(self, node: ast.Compare):
        self.generic_visit(node)
        # N27: x not in (None, E)  ->  x is not None and x != E ;   x in (None, E)  ->  x is None or x == E
        # (x a plain path, E a plain path / constant / call without arguments: both read the same either way)
        if len(node.ops) == 1 and isinstance(node.ops[0], (ast.In, ast.NotIn)) and isinstance(node.comparators[0], (ast.Tuple, ast.List, ast.Set)) \
                and len(node.comparators[0].elts) == 2 and _pure_path(node.left):
            a, b = node.comparators[0].elts
            if isinstance(b, ast.Constant) and b.value is None:
                a, b = b, a
            simple_b = _pure_path(b) or isinstance(b, ast.Constant) or (isinstance(b, ast.Call) and not b.args and not b.keywords and _pure_path(b.func))
            if isinstance(a, ast.Constant) and a.value is None and simple_b and not (isinstance(b, ast.Constant) and b.value is None):
                neg = isinstance(node.ops[0], ast.NotIn)
                c1 = ast.Compare(left=node.left, ops=[ast.IsNot() if neg else ast.Is()], comparators=[ast.Constant(value=None)])
                c2 = ast.Compare(left=_clone(node.left), ops=[ast.NotEq() if neg else ast.Eq()], comparators=[b])
                return ast.copy_location(ast.BoolOp(op=ast.And() if neg else ast.Or(), values=[ast.copy_location(c1, node), ast.copy_location(c2, node)]), node)
        return node

    def visit_UnaryOp(self, node: ast.UnaryOp):
        self.generic_visit(node)
        # N35: not (a or b) -> not a and not b;  not (a and b) -> not a or not b;  not (x is y) -> x is not y; ... (De Morgan and the
        # negations that are exact by definition, see _negate; an ordering is flipped only against a length / an integer literal)
        if isinstance(node.op, ast.Not) and isinstance(node.operand, (ast.BoolOp, ast.Compare, ast.UnaryOp)):
            neg = _negate(node.operand, eq_ok=False)
            if not (isinstance(neg, ast.UnaryOp) and isinstance(neg.op, ast.Not) and neg.operand is node.operand):
                return ast.copy_location(neg, node)
        return node

    def visit_IfExp(self, node: ast.IfExp):
        self.generic_visit(node)
        # N25: a if not c else b   ->   b if c else a
        if isinstance(node.test, ast.UnaryOp) and isinstance(node.test.op, ast.Not):
            return ast.copy_location(ast.IfExp(test=node.test.operand, body=node.orelse, orelse=node.body), node)
        return node

    def _loop_else(self, node):
        return node

    def visit_While(self, node: ast.While):
        node.body = _continue_to_else(node.body)
        self.generic_visit(node)
        # N42 (the do-while form): while True: S; if X: break; [if Y: break]      ->      S; while not X [and not Y]: S
        # (S one or two plain statements - assignments, augmented assignments, calls - without break / continue; every exit test
        # sits behind S; the loop body of the result is a copy of S)
        if isinstance(node.test, ast.Constant) and node.test.value is True and not node.orelse and len(node.body) >= 2:
            k = len(node.body)
            while k > 0 and isinstance(node.body[k - 1], ast.If) and not node.body[k - 1].orelse and len(node.body[k - 1].body) == 1 \
                    and isinstance(node.body[k - 1].body[0], ast.Break):
                k -= 1
            lead, guards_ = node.body[:k], node.body[k:]
            if guards_ and 1 <= len(lead) <= 2 and all(isinstance(x, (ast.Assign, ast.AugAssign, ast.Expr)) for x in lead) \
                    and not any(isinstance(n_, (ast.Yield, ast.YieldFrom, ast.Await, ast.NamedExpr)) for x in lead for n_ in ast.walk(x)):
                tests = [_negate(g.test) for g in guards_]
                test = tests[0] if len(tests) == 1 else ast.BoolOp(op=ast.And(), values=tests)
                loop = ast.copy_location(ast.While(test=ast.copy_location(test, guards_[0].test), body=[_clone(x) for x in lead], orelse=[]), node)
                return lead + [ast.fix_missing_locations(loop)]
        # N6: while True: if X: break; rest   ->   while not X: rest
        if isinstance(node.test, ast.Constant) and node.test.value is True and not node.orelse and node.body:
            # N15 (loop rotation): leading `t = <attribute chain / name>` statements in front of the exit test are read-only
            # aliases; the exit test is hoisted into the loop test with the aliases expanded, the aliases stay in the body:
            #   while True: t = a.b; if C(t): break; REST      ->      while not C(a.b): t = a.b; REST
            k = 0
            alias = {}
            while k < len(node.body):
                st = node.body[k]
                if isinstance(st, ast.Assign) and len(st.targets) == 1 and isinstance(st.targets[0], ast.Name) and _pure_path(st.value) \
                        and st.targets[0].id not in alias:
                    alias[st.targets[0].id] = st.value
                    k += 1
                else:
                    break
            if alias and k < len(node.body) - 0:
                tail = node.body[k:]
                lead = []
                for st in tail:
                    if isinstance(st, ast.If) and not st.orelse and len(st.body) == 1 and isinstance(st.body[0], ast.Break):
                        lead.append(st)
                    else:
                        break
                # the aliases must not be re-bound later in the body, and what they read must not be written by the tests
                rebound = {t.id for st in tail for n_ in ast.walk(st) for t in ([n_] if isinstance(n_, ast.Name) and isinstance(n_.ctx, ast.Store) else [])}
                if lead and len(tail) > len(lead) and not (rebound & set(alias)):
                    class _Exp(ast.NodeTransformer):
                        def visit_Name(self_, n_):
                            if isinstance(n_.ctx, ast.Load) and n_.id in alias:
                                return ast.copy_location(_clone(alias[n_.id]), n_)
                            return n_
                    tests = [_negate(_Exp().visit(_clone(g.test))) for g in lead]
                    test = tests[0] if len(tests) == 1 else ast.BoolOp(op=ast.And(), values=tests)
                    body = node.body[:k] + tail[len(lead):]
                    return ast.copy_location(ast.While(test=ast.copy_location(test, lead[0].test), body=body, orelse=[]), node)
            # N17: while True: if X: S...; break   REST      ->      while not X: REST   else: S...
            # (the exit test is the first statement and does more than break: what it does is the loop's else clause)
            first = node.body[0]
            if isinstance(first, ast.If) and not first.orelse and len(first.body) >= 2 and isinstance(first.body[-1], ast.Break) \
                    and len(node.body) > 1 \
                    and not any(isinstance(x, (ast.Break, ast.Continue)) for s_ in first.body[:-1] for x in ast.walk(s_)):
                return ast.copy_location(ast.While(test=_negate(first.test), body=node.body[1:], orelse=first.body[:-1]), node)
            guards = []
            for st in node.body:
                if isinstance(st, ast.If) and not st.orelse and len(st.body) == 1 and isinstance(st.body[0], ast.Break):
                    guards.append(st)
                else:
                    break
            if guards and len(node.body) > len(guards):
                tests = [_negate(g.test) for g in guards]
                test = tests[0] if len(tests) == 1 else ast.BoolOp(op=ast.And(), values=tests)
                return ast.copy_location(ast.While(test=ast.copy_location(test, guards[0].test), body=node.body[len(guards):], orelse=[]), node)
        return self._loop_else(node)

    def visit_If(self, node: ast.If):
        self.generic_visit(node)
        # N45 (also on what N24 produces):  if c: A else: break   ->   if not c: break;  A
        if node.orelse and len(node.orelse) == 1 and isinstance(node.orelse[0], ast.Break) and node.body \
                and not (len(node.body) == 1 and isinstance(node.body[0], ast.Break)):
            guard = ast.copy_location(ast.If(test=_negate(node.test), body=node.orelse, orelse=[]), node)
            return [ast.fix_missing_locations(guard)] + list(node.body)
        # N30: if c: pass else: B      ->      if not c: B        (what N24 leaves of `if c: continue` + REST)
        if len(node.body) == 1 and isinstance(node.body[0], ast.Pass) and node.orelse:
            node = ast.copy_location(ast.If(test=_negate(node.test), body=node.orelse, orelse=[]), node)
        # N26: if not any(P for T in IT): BODY      ->      for T in IT: if P: break   else: BODY
        # (the existential scan in its loop form, which the scan rules follow; T must not be a name the function uses elsewhere)
        t = node.test
        if self._in_func and not node.orelse and isinstance(t, ast.UnaryOp) and isinstance(t.op, ast.Not) and isinstance(t.operand, ast.Call) \
                and isinstance(t.operand.func, ast.Name) and t.operand.func.id == "any" and len(t.operand.args) == 1 \
                and not t.operand.keywords and isinstance(t.operand.args[0], ast.GeneratorExp) \
                and len(t.operand.args[0].generators) == 1 and not t.operand.args[0].generators[0].ifs \
                and not t.operand.args[0].generators[0].is_async:
            g = t.operand.args[0]
            gen = g.generators[0]
            tnames = {n.id for n in ast.walk(gen.target) if isinstance(n, ast.Name)}
            inside = {}
            for n in ast.walk(g):
                if isinstance(n, ast.Name) and isinstance(n.ctx, ast.Load) and n.id in tnames:
                    inside[n.id] = inside.get(n.id, 0) + 1
            if tnames and tnames <= self._comp_only and not (tnames & self._params) and not (tnames & self._declared):
                brk = ast.copy_location(ast.Break(), node)
                inner = ast.copy_location(ast.If(test=g.elt, body=[brk], orelse=[]), node)
                loop = ast.For(target=gen.target, iter=gen.iter, body=[inner], orelse=node.body, type_comment=None)
                for n in ast.walk(gen.target):
                    if isinstance(n, (ast.Name, ast.Tuple, ast.List)):
                        n.ctx = ast.Store()
                return ast.copy_location(loop, node)
        # (N3 first, so that N9 builds its conditional expression over the positive test)
        if node.orelse and not (len(node.orelse) == 1 and isinstance(node.orelse[0], ast.If)) \
                and isinstance(node.test, ast.UnaryOp) and isinstance(node.test.op, ast.Not):
            node = ast.copy_location(ast.If(test=node.test.operand, body=node.orelse, orelse=node.body), node)
        # N9: two single-statement arms doing the same thing with different values become one conditional expression
        def _calls_private(st) -> bool:
            # a value computed by a private helper stays a statement, so that the inlined view (sa/inline.py) can expand it
            return any(isinstance(c, ast.Call) and isinstance(c.func, ast.Attribute) and c.func.attr.startswith("_")
                       and not c.func.attr.startswith("__") for c in ast.walk(st))
        if len(node.body) == 1 and len(node.orelse) == 1 and not _calls_private(node.body[0]) and not _calls_private(node.orelse[0]):
            a, b = node.body[0], node.orelse[0]
            if isinstance(a, ast.Assign) and isinstance(b, ast.Assign) and len(a.targets) == 1 and len(b.targets) == 1 \
                    and isinstance(a.targets[0], (ast.Name, ast.Attribute)) and _same(a.targets[0], b.targets[0]):
                return ast.copy_location(ast.Assign(targets=a.targets, value=ast.IfExp(test=node.test, body=a.value, orelse=b.value)), node)
            if isinstance(a, ast.AugAssign) and isinstance(b, ast.AugAssign) and _same(a.target, b.target) \
                    and isinstance(a.target, (ast.Name, ast.Attribute)) \
                    and isinstance(a.op, (ast.Add, ast.Sub)) and isinstance(b.op, (ast.Add, ast.Sub)):
                # t += x / t -= y  in the two arms:  t += (x if c else -y)
                va = a.value if isinstance(a.op, ast.Add) else ast.UnaryOp(op=ast.USub(), operand=a.value)
                vb = b.value if isinstance(b.op, ast.Add) else ast.UnaryOp(op=ast.USub(), operand=b.value)
                return ast.copy_location(ast.AugAssign(target=a.target, op=ast.Add(),
                                                       value=ast.IfExp(test=node.test, body=va, orelse=vb)), node)
            if isinstance(a, ast.Return) and isinstance(b, ast.Return) and a.value is not None and b.value is not None:
                return ast.copy_location(ast.Return(value=ast.IfExp(test=node.test, body=a.value, orelse=b.value)), node)
            if isinstance(a, ast.Expr) and isinstance(b, ast.Expr) and isinstance(a.value, ast.Yield) and isinstance(b.value, ast.Yield) \
                    and a.value.value is not None and b.value.value is not None:
                return ast.copy_location(ast.Expr(value=ast.Yield(value=ast.IfExp(test=node.test, body=a.value.value, orelse=b.value.value))), node)
        if node.orelse and not (len(node.orelse) == 1 and isinstance(node.orelse[0], ast.If)) \
                and isinstance(node.test, ast.UnaryOp) and isinstance(node.test.op, ast.Not):
            return ast.copy_location(ast.If(test=node.test.operand, body=node.orelse, orelse=node.body), node)
        return node

    def _block(self, stmts: List[ast.stmt], is_def_body=False) -> List[ast.stmt]:
        out: List[ast.stmt] = []
        for i, st in enumerate(stmts):
            if isinstance(st, ast.Pass):
                continue
            if isinstance(st, ast.Expr) and isinstance(st.value, ast.Constant) and not (is_def_body and i == 0 and isinstance(st.value.value, str)):
                if st.value.value is not Ellipsis:
                    continue
            if isinstance(st, ast.Assert) and isinstance(st.test, ast.Constant) and st.test.value is True:
                continue
            # N21: an assertion whose test only reads (no call that could change state) is assumed to hold
            if isinstance(st, ast.Assert) and _read_only(st.test):
                for n in ast.walk(st):
                    if isinstance(n, ast.Name) and isinstance(n.ctx, ast.Load) and n.id in self._uses:
                        self._uses[n.id] -= 1              # the reads made by the assertion are gone with it
                continue
            # N22: a store to a local that nothing reads (e.g. a counter that only fed a log line) is dropped when the stored
            # expression only reads
            if self._in_func and isinstance(st, (ast.Assign, ast.AugAssign, ast.AnnAssign)):
                tg = st.targets[0] if isinstance(st, ast.Assign) and len(st.targets) == 1 else getattr(st, "target", None)
                if isinstance(tg, ast.Name) and self._uses.get(tg.id, 0) == 0 and tg.id not in self._declared \
                        and tg.id not in self._params and st.value is not None and _read_only(st.value):
                    if any(isinstance(n, (ast.Subscript, ast.Attribute, ast.Call, ast.BinOp, ast.Compare)) for n in ast.walk(st.value)):
                        # the evaluation itself may raise (a look-up made for its KeyError): keep it, drop the binding
                        if isinstance(st, ast.Assign):
                            out.append(ast.copy_location(ast.Expr(value=st.value), st))
                            continue
                    else:
                        continue
            out.append(st)
        # N13: x = <list expr>; x.sort(**kw)   ->   x = sorted(<list expr>, **kw)     (adjacent statements, x a local name)
        merged: List[ast.stmt] = []
        i = 0
        while i < len(out):
            st = out[i]
            nxt = out[i + 1] if i + 1 < len(out) else None
            if isinstance(st, ast.Assign) and len(st.targets) == 1 and isinstance(st.targets[0], ast.Name) \
                    and isinstance(nxt, ast.Expr) and isinstance(nxt.value, ast.Call) and isinstance(nxt.value.func, ast.Attribute) \
                    and nxt.value.func.attr == "sort" and isinstance(nxt.value.func.value, ast.Name) \
                    and nxt.value.func.value.id == st.targets[0].id and not nxt.value.args \
                    and (isinstance(st.value, (ast.List, ast.ListComp)) or (isinstance(st.value, ast.Call) and isinstance(st.value.func, ast.Name)
                                                                             and st.value.func.id == "list" and len(st.value.args) == 1)):
                src_ = st.value.args[0] if isinstance(st.value, ast.Call) else st.value
                call = ast.Call(func=ast.Name(id="sorted", ctx=ast.Load()), args=[src_], keywords=nxt.value.keywords)
                merged.append(ast.copy_location(ast.Assign(targets=st.targets, value=ast.copy_location(call, st.value)), st))
                if st.targets[0].id in self._uses:
                    self._uses[st.targets[0].id] -= 1       # the receiver of .sort() is no longer read
                i += 2
                continue
            merged.append(st)
            i += 1
        out = merged
        # N4: t = E; return t
        res: List[ast.stmt] = []
        i = 0
        while i < len(out):
            st = out[i]
            nxt = out[i + 1] if i + 1 < len(out) else None
            if isinstance(st, ast.Assign) and len(st.targets) == 1 and isinstance(st.targets[0], ast.Name) \
                    and isinstance(nxt, ast.Return) and isinstance(nxt.value, ast.Name) and nxt.value.id == st.targets[0].id \
                    and self._uses.get(st.targets[0].id, 0) == 1:
                res.append(ast.copy_location(ast.Return(value=st.value), st))
                i += 2
                continue
            res.append(st)
            i += 1
        # N8: x = []; for t in it: x.append(E)   ->   x = [E for t in it]
        res2: List[ast.stmt] = []
        i = 0
        while i < len(res):
            st = res[i]
            nxt = res[i + 1] if i + 1 < len(res) else None
            app_st, app_ifs = (nxt.body[0] if isinstance(nxt, ast.For) and len(nxt.body) == 1 else None), []
            if isinstance(app_st, ast.If) and not app_st.orelse and len(app_st.body) == 1:
                # one filtering `if` (without else) around the append becomes the comprehension's condition
                app_ifs, app_st = [app_st.test], app_st.body[0]
            if isinstance(st, ast.Assign) and len(st.targets) == 1 and isinstance(st.targets[0], ast.Name) \
                    and isinstance(st.value, ast.List) and not st.value.elts and isinstance(nxt, ast.For) and not nxt.orelse \
                    and len(nxt.body) == 1 and isinstance(app_st, ast.Expr) and isinstance(app_st.value, ast.Call):
                c = app_st.value
                name = st.targets[0].id
                if isinstance(c.func, ast.Attribute) and c.func.attr == "append" and isinstance(c.func.value, ast.Name) \
                        and c.func.value.id == name and len(c.args) == 1 and not c.keywords \
                        and name not in {n.id for n in ast.walk(c.args[0]) if isinstance(n, ast.Name)} \
                        and name not in {n.id for x_ in app_ifs for n in ast.walk(x_) if isinstance(n, ast.Name)} \
                        and name not in {n.id for n in ast.walk(nxt.iter) if isinstance(n, ast.Name)}:
                    comp = ast.ListComp(elt=c.args[0], generators=[ast.comprehension(target=nxt.target, iter=nxt.iter, ifs=app_ifs, is_async=0)])
                    res2.append(ast.copy_location(ast.Assign(targets=[ast.Name(id=name, ctx=ast.Store())], value=comp), st))
                    i += 2
                    continue
            # N18: t = 0; for x in it: t += E   ->   t = sum(E for x in it)
            if isinstance(st, ast.Assign) and len(st.targets) == 1 and isinstance(st.targets[0], ast.Name) \
                    and isinstance(st.value, ast.Constant) and st.value.value == 0 and not isinstance(st.value.value, bool) \
                    and isinstance(nxt, ast.For) and not nxt.orelse and len(nxt.body) == 1 and isinstance(nxt.body[0], ast.AugAssign) \
                    and isinstance(nxt.body[0].op, ast.Add) and isinstance(nxt.body[0].target, ast.Name) \
                    and nxt.body[0].target.id == st.targets[0].id:
                name = st.targets[0].id
                ex_ = nxt.body[0].value
                if name not in {n.id for x in (ex_, nxt.iter) for n in ast.walk(x) if isinstance(n, ast.Name)}:
                    gen = ast.GeneratorExp(elt=ex_, generators=[ast.comprehension(target=nxt.target, iter=nxt.iter, ifs=[], is_async=0)])
                    call = ast.Call(func=ast.Name(id="sum", ctx=ast.Load()), args=[gen], keywords=[])
                    res2.append(ast.copy_location(ast.Assign(targets=[ast.Name(id=name, ctx=ast.Store())], value=ast.copy_location(call, st)), st))
                    i += 2
                    continue
            # N14: d = {}; for t in it: d[K] = V   ->   d = {K: V for t in it}
            inner_ = None
            conds_ = []
            if isinstance(st, ast.Assign) and len(st.targets) == 1 and isinstance(st.targets[0], ast.Name) \
                    and isinstance(st.value, ast.Dict) and not st.value.keys and isinstance(nxt, ast.For) and not nxt.orelse \
                    and len(nxt.body) == 1:
                inner_ = nxt.body[0]
                # one filtering `if` (without else) around the store becomes the comprehension's condition
                if isinstance(inner_, ast.If) and not inner_.orelse and len(inner_.body) == 1:
                    conds_ = [inner_.test]
                    inner_ = inner_.body[0]
            if inner_ is not None and isinstance(inner_, ast.Assign) and len(inner_.targets) == 1 \
                    and isinstance(inner_.targets[0], ast.Subscript) and isinstance(inner_.targets[0].value, ast.Name) \
                    and inner_.targets[0].value.id == st.targets[0].id:
                name = st.targets[0].id
                kx, vx = inner_.targets[0].slice, inner_.value
                if name not in {n.id for x in [kx, vx, nxt.iter] + conds_ for n in ast.walk(x) if isinstance(n, ast.Name)}:
                    comp = ast.DictComp(key=kx, value=vx, generators=[ast.comprehension(target=nxt.target, iter=nxt.iter, ifs=conds_, is_async=0)])
                    res2.append(ast.copy_location(ast.Assign(targets=[ast.Name(id=name, ctx=ast.Store())], value=comp), st))
                    i += 2
                    continue
            res2.append(st)
            i += 1
        res = self._flag_to_else(res2)
        res = self._loop_to_anyall(res)
        # N4 once more: a rewrite above may have produced `t = E` directly in front of `return t`
        again: List[ast.stmt] = []
        i = 0
        while i < len(res):
            st = res[i]
            nxt = res[i + 1] if i + 1 < len(res) else None
            if isinstance(st, ast.Assign) and len(st.targets) == 1 and isinstance(st.targets[0], ast.Name) \
                    and isinstance(nxt, ast.Return) and isinstance(nxt.value, ast.Name) and nxt.value.id == st.targets[0].id \
                    and sum(1 for s_ in res for n_ in ast.walk(s_) if isinstance(n_, ast.Name) and n_.id == st.targets[0].id
                            and isinstance(n_.ctx, ast.Load)) == 1 and self._uses.get(st.targets[0].id, 0) <= 2:
                again.append(ast.copy_location(ast.Return(value=st.value), st))
                i += 2
                continue
            again.append(st)
            i += 1
        res = again
        # N19: t = E; if <test starting with t>: ...   ->   if <test with E for t>: ...     (t a local read nowhere else; E is
        # evaluated at the same moment either way because t is the first thing the test evaluates)
        if self._in_func:
            folded: List[ast.stmt] = []
            i = 0
            while i < len(res):
                st = res[i]
                nxt = res[i + 1] if i + 1 < len(res) else None
                # (N19 also for  t = E; return f(t, ...):  t the first thing the return statement evaluates)
                host = "test" if isinstance(nxt, ast.If) else ("value" if isinstance(nxt, ast.Return) and nxt.value is not None else None)
                if isinstance(st, ast.Assign) and len(st.targets) == 1 and isinstance(st.targets[0], ast.Name) \
                        and host is not None and self._uses.get(st.targets[0].id, 0) == 1 \
                        and st.targets[0].id not in self._declared \
                        and not isinstance(st.value, (ast.Yield, ast.YieldFrom, ast.Await, ast.NamedExpr)) \
                        and not (host == "value" and isinstance(getattr(nxt, host), ast.Name)):
                    slot = self._first_evaluated(getattr(nxt, host), st.targets[0].id, calls=(host == "value"))
                    if slot is not None:
                        holder, fld, idx = slot
                        if holder is None:
                            setattr(nxt, host, st.value)
                        elif idx is None:
                            setattr(holder, fld, st.value)
                        else:
                            getattr(holder, fld)[idx] = st.value
                        folded.append(nxt)
                        i += 2
                        continue
                folded.append(st)
                i += 1
            res = folded
        if not res:
            res = [ast.copy_location(ast.Pass(), stmts[0])] if stmts else []
        return res

    @staticmethod
    def _first_evaluated(test, name, calls=False):
        """where in ``test`` the name sits, if it is the first thing the test evaluates: (holder, field, index) or None.
        With ``calls``: also the first argument of a call whose callee is a plain path (looked up, not called, before the argument)
        and the receiver of a method call / attribute / subscript."""
        holder, fld, idx = None, None, None
        e = test
        while True:
            if isinstance(e, ast.Name):
                return (holder, fld, idx) if e.id == name and isinstance(e.ctx, ast.Load) else None
            if calls and isinstance(e, ast.Call) and e.args and not isinstance(e.args[0], ast.Starred) and _pure_path(e.func) \
                    and not any(isinstance(n, ast.Name) and n.id == name for n in ast.walk(e.func)):
                holder, fld, idx, e = e, "args", 0, e.args[0]
                continue
            if calls and isinstance(e, ast.Call) and isinstance(e.func, ast.Attribute):
                holder, fld, idx, e = e.func, "value", None, e.func.value
                continue
            if calls and isinstance(e, (ast.Attribute, ast.Subscript)):
                holder, fld, idx, e = e, "value", None, e.value
                continue
            if calls and isinstance(e, ast.BinOp):
                holder, fld, idx, e = e, "left", None, e.left
                continue
            if isinstance(e, ast.UnaryOp) and isinstance(e.op, ast.Not):
                holder, fld, idx, e = e, "operand", None, e.operand
            elif isinstance(e, ast.BoolOp):
                holder, fld, idx, e = e, "values", 0, e.values[0]
            elif isinstance(e, ast.Compare):
                holder, fld, idx, e = e, "left", None, e.left
            else:
                return None

    def _flag_to_else(self, stmts: List[ast.stmt]) -> List[ast.stmt]:
        """N12:  f = True; LOOP (every `f = False` directly followed by break, every break of LOOP directly preceded by it);
        if f: TAIL      ->      LOOP ... else: TAIL       (f not used anywhere else in the function)"""
        out: List[ast.stmt] = []
        i = 0
        while i < len(stmts):
            st = stmts[i]
            if i + 2 < len(stmts) and isinstance(st, ast.Assign) and len(st.targets) == 1 and isinstance(st.targets[0], ast.Name) \
                    and isinstance(st.value, ast.Constant) and st.value.value is True \
                    and isinstance(stmts[i + 1], (ast.For, ast.While)) and not stmts[i + 1].orelse \
                    and isinstance(stmts[i + 2], ast.If) and isinstance(stmts[i + 2].test, ast.Name) \
                    and stmts[i + 2].test.id == st.targets[0].id and not stmts[i + 2].orelse:
                flag = st.targets[0].id
                loop, tail = stmts[i + 1], stmts[i + 2]
                ok = [True]
                clears, breaks = [], []

                def scan(block, top=True):
                    for k, x in enumerate(block):
                        if isinstance(x, ast.Assign) and len(x.targets) == 1 and isinstance(x.targets[0], ast.Name) and x.targets[0].id == flag:
                            if isinstance(x.value, ast.Constant) and x.value.value is False and k + 1 < len(block) and isinstance(block[k + 1], ast.Break):
                                clears.append((block, k))
                            else:
                                ok[0] = False
                        elif isinstance(x, ast.Break):
                            if not (k > 0 and isinstance(block[k - 1], ast.Assign) and isinstance(block[k - 1].targets[0], ast.Name)
                                    and block[k - 1].targets[0].id == flag):
                                ok[0] = False
                        elif isinstance(x, (ast.For, ast.While, ast.FunctionDef, ast.AsyncFunctionDef, ast.ClassDef)):
                            # a break inside an inner loop leaves that loop only; the flag must not be touched there
                            if any(isinstance(y, ast.Name) and y.id == flag for y in ast.walk(x)):
                                ok[0] = False
                        else:
                            for fld in ("body", "orelse", "finalbody"):
                                scan(getattr(x, fld, []) or [], False)
                            for h in getattr(x, "handlers", []) or []:
                                scan(h.body, False)
                            if any(isinstance(y, ast.Name) and y.id == flag for y in ast.walk(getattr(x, "test", ast.Constant(value=0)))):
                                ok[0] = False
                scan(loop.body)
                def loads(nodes):
                    return sum(1 for n_ in nodes for y in ast.walk(n_) if isinstance(y, ast.Name) and y.id == flag and isinstance(y.ctx, ast.Load))
                # the flag is read by the `if f:` test only: not inside the loop or the tail, and not later in this block
                private = loads([loop]) == 0 and loads(tail.body) == 0 and loads(stmts[i + 3:]) == 0
                if ok[0] and clears and private:
                    for block, k in sorted(clears, key=lambda t: -t[1]):
                        del block[k]
                    loop.orelse = tail.body
                    out.append(loop)
                    i += 3
                    continue
            out.append(st)
            i += 1
        return out

    def _loop_to_anyall(self, stmts: List[ast.stmt]) -> List[ast.stmt]:
        """N16:  for t in it: if C: return <const a>      ->   return any(C for t in it)        (a, b) = (True, False)
                 return <const b>                              return all(not C for t in it)    (a, b) = (False, True)
        (loop without else/break/continue whose only statement is the test; the return follows the loop directly)"""
        out: List[ast.stmt] = []
        i = 0
        while i < len(stmts):
            st = stmts[i]
            nxt = stmts[i + 1] if i + 1 < len(stmts) else None
            if isinstance(st, ast.For) and not st.orelse and len(st.body) == 1 and isinstance(st.body[0], ast.If) \
                    and not st.body[0].orelse and len(st.body[0].body) == 1 and isinstance(st.body[0].body[0], ast.Return) \
                    and isinstance(st.body[0].body[0].value, ast.Constant) and isinstance(st.body[0].body[0].value.value, bool) \
                    and isinstance(nxt, ast.Return) and isinstance(nxt.value, ast.Constant) and isinstance(nxt.value.value, bool) \
                    and nxt.value.value != st.body[0].body[0].value.value:
                c = st.body[0].test
                inner = st.body[0].body[0].value.value
                gen = ast.GeneratorExp(elt=c if inner else _negate(c),
                                       generators=[ast.comprehension(target=st.target, iter=st.iter, ifs=[], is_async=0)])
                call = ast.Call(func=ast.Name(id="any" if inner else "all", ctx=ast.Load()), args=[gen], keywords=[])
                out.append(ast.copy_location(ast.Return(value=ast.copy_location(call, st)), st))
                i += 2
                continue
            # the same scan written with break / else:   for t in it: if C: break   else: return <b>   ;   return <a>
            if isinstance(st, ast.For) and len(st.body) == 1 and isinstance(st.body[0], ast.If) and not st.body[0].orelse \
                    and len(st.body[0].body) == 1 and isinstance(st.body[0].body[0], ast.Break) \
                    and len(st.orelse) == 1 and isinstance(st.orelse[0], ast.Return) and isinstance(st.orelse[0].value, ast.Constant) \
                    and isinstance(st.orelse[0].value.value, bool) \
                    and isinstance(nxt, ast.Return) and isinstance(nxt.value, ast.Constant) and isinstance(nxt.value.value, bool) \
                    and nxt.value.value != st.orelse[0].value.value:
                c = st.body[0].test
                found = nxt.value.value           # value returned when some element satisfies C
                gen = ast.GeneratorExp(elt=c if found else _negate(c),
                                       generators=[ast.comprehension(target=st.target, iter=st.iter, ifs=[], is_async=0)])
                call = ast.Call(func=ast.Name(id="any" if found else "all", ctx=ast.Load()), args=[gen], keywords=[])
                out.append(ast.copy_location(ast.Return(value=ast.copy_location(call, st)), st))
                i += 2
                continue
            out.append(st)
            i += 1
        return out

    _uses: dict = {}
    _declared: set = set()
    _params: set = set()
    _comp_only: set = set()

    def generic_visit(self, node):
        node = super().generic_visit(node)
        for fld in ("body", "orelse", "finalbody"):
            v = getattr(node, fld, None)
            if isinstance(v, list) and v and isinstance(v[0], ast.stmt):
                is_def = fld == "body" and isinstance(node, (ast.FunctionDef, ast.AsyncFunctionDef, ast.ClassDef, ast.Module))
                nb = self._block(v, is_def)
                if fld in ("orelse", "finalbody") and len(nb) == 1 and isinstance(nb[0], ast.Pass):
                    nb = []                      # an else / finally arm that has become empty is no arm
                setattr(node, fld, nb)
        if isinstance(node, ast.Try):
            for h in node.handlers:
                h.body = self._block(h.body)
        return node

    def visit_FunctionDef(self, node):
        self._in_func += 1
        try:
            return self._visit_func(node)
        finally:
            self._in_func -= 1

    def _visit_func(self, node):
        saved = self._uses
        uses = {}
        for n in ast.walk(node):
            if isinstance(n, ast.Name) and isinstance(n.ctx, ast.Load):
                uses[n.id] = uses.get(n.id, 0) + 1
        self._uses = uses
        # names that occur only as comprehension variables (every occurrence lies inside a comprehension that binds the name)
        saved_co = self._comp_only
        bound_in = {}
        total = {}
        for n in ast.walk(node):
            if isinstance(n, ast.Name):
                total[n.id] = total.get(n.id, 0) + 1
            if isinstance(n, (ast.GeneratorExp, ast.ListComp, ast.SetComp, ast.DictComp)):
                tn = {x.id for g_ in n.generators for x in ast.walk(g_.target) if isinstance(x, ast.Name)}
                inner_comps = [m for m in ast.walk(n) if m is not n and isinstance(m, (ast.GeneratorExp, ast.ListComp, ast.SetComp, ast.DictComp))]
                skip = {id(x) for m in inner_comps for x in ast.walk(m)}
                for x in ast.walk(n):
                    if isinstance(x, ast.Name) and x.id in tn and id(x) not in skip:
                        bound_in[x.id] = bound_in.get(x.id, 0) + 1
        self._comp_only = {nm for nm, k in bound_in.items() if k == total.get(nm)}
        saved_decl, saved_params = self._declared, self._params
        self._declared = {nm for n in ast.walk(node) if isinstance(n, (ast.Global, ast.Nonlocal)) for nm in n.names}
        a = node.args
        self._params = {x.arg for x in a.posonlyargs + a.args + a.kwonlyargs} | ({a.vararg.arg} if a.vararg else set()) \
            | ({a.kwarg.arg} if a.kwarg else set())
        node = self.generic_visit(node)
        self._uses = saved
        self._comp_only = saved_co
        self._declared, self._params = saved_decl, saved_params
        return node

    visit_AsyncFunctionDef = visit_FunctionDef


INERT_MODULES = {"logging", "warnings"}


def _inert_roots(tree: ast.Module):
    """names bound to the logging / warnings modules, and module-level loggers (x = logging.getLogger(...))"""
    roots = set()
    for n in ast.walk(tree):
        if isinstance(n, ast.Import):
            for a in n.names:
                if a.name.split(".")[0] in INERT_MODULES:
                    roots.add(a.asname or a.name.split(".")[0])
        elif isinstance(n, ast.ImportFrom) and n.module and n.module.split(".")[0] in INERT_MODULES:
            for a in n.names:
                roots.add(a.asname or a.name)
    for n in tree.body:
        if isinstance(n, ast.Assign) and isinstance(n.value, ast.Call) and len(n.targets) == 1 and isinstance(n.targets[0], ast.Name):
            r = n.value.func
            while isinstance(r, (ast.Attribute, ast.Call)):
                r = r.value if isinstance(r, ast.Attribute) else r.func
            if isinstance(r, ast.Name) and r.id in roots:
                roots.add(n.targets[0].id)
    return roots


class _DropInert(ast.NodeTransformer):
    """N7: expression statements that only call into logging / warnings are dropped (they do not touch program state)"""

    def __init__(self, roots):
        self.roots = roots

    def visit_Expr(self, node):
        v = node.value
        if isinstance(v, ast.Call):
            r = v.func
            while isinstance(r, (ast.Attribute, ast.Call)):
                r = r.value if isinstance(r, ast.Attribute) else r.func
            if isinstance(r, ast.Name) and r.id in self.roots:
                return ast.copy_location(ast.Pass(), node)
        return node


# N20: a local that names a field which is bound once and for all (`cache = self.cache`, `manager = self._manager`) reads as
# the field.  "Once and for all" is decided for the whole package (``REBOUND_ATTRS``, filled by the loader before the modules
# are normalised): the attribute name is stored to nowhere outside constructors, and not in the function at hand.
REBOUND_ATTRS: set = set()
_REBOUND_KNOWN = False


def collect_rebound_attrs(trees) -> set:
    """attribute names that are assigned / deleted / augmented somewhere outside a constructor (`x.a = ...` in any function
    other than __init__/__new__/__post_init__, or at module / class level through an object)"""
    out = set()

    def go(node, in_ctor):
        for ch in ast.iter_child_nodes(node):
            if isinstance(ch, (ast.FunctionDef, ast.AsyncFunctionDef)):
                go(ch, ch.name in ("__init__", "__new__", "__post_init__"))
                continue
            if isinstance(ch, ast.Attribute) and isinstance(ch.ctx, (ast.Store, ast.Del)) and not in_ctor:
                out.add(ch.attr)
            if isinstance(ch, ast.Call) and isinstance(ch.func, ast.Name) and ch.func.id in ("setattr", "delattr"):
                out.add("*")
            go(ch, in_ctor)
    for t in trees:
        go(t, False)
    return out


_MODULE_ROOTS = {"os", "heapq", "bisect", "math", "itertools", "json", "csv", "multiprocessing", "queue", "threading", "time", "sys"}


class _AliasFields(ast.NodeTransformer):
    def visit_FunctionDef(self, node):
        self.generic_visit(node)
        if not _REBOUND_KNOWN or "*" in REBOUND_ATTRS:
            return node
        a = node.args
        params = {x.arg for x in a.posonlyargs + a.args + a.kwonlyargs} | ({a.vararg.arg} if a.vararg else set()) \
            | ({a.kwarg.arg} if a.kwarg else set())
        for _round in range(4):                     # `pool = self.pool; q = pool._queue`: one alias may stand on another
            if not self._one_pass(node, params):
                break
        return node

    visit_AsyncFunctionDef = visit_FunctionDef

    def _one_pass(self, node, params) -> bool:
        stores: dict = {}
        declared = set()
        own_attr_stores = set()
        for n in ast.walk(node):
            if isinstance(n, ast.Name) and isinstance(n.ctx, (ast.Store, ast.Del)):
                stores[n.id] = stores.get(n.id, 0) + 1
            elif isinstance(n, (ast.Global, ast.Nonlocal)):
                declared |= set(n.names)
            elif isinstance(n, ast.Attribute) and isinstance(n.ctx, (ast.Store, ast.Del)):
                own_attr_stores.add(n.attr)

        def stable(e, after=None) -> bool:
            path = []
            while isinstance(e, ast.Attribute):
                path.append(e.attr)
                e = e.value
            if not (bool(path) and isinstance(e, ast.Name) and e.id not in declared
                    and not any(x in REBOUND_ATTRS or x in own_attr_stores for x in path)):
                return False
            if stores.get(e.id, 0) == 1 and after is not None and e.id not in params:
                # the root is a local bound by one statement (`with self.SendWorkThread(...) as send_thread:`,
                # `pool = Pool(...)`) that does not lie in the region where the alias is read
                return not any(isinstance(n, ast.Name) and n.id == e.id and isinstance(n.ctx, (ast.Store, ast.Del))
                               for s_ in after for n in ast.walk(s_))
            if stores.get(e.id, 0) != 0:
                return False
            # the root is a parameter that is never re-bound, or a class of the package / an imported module named by a global
            # (`FunRunner.WORK_QUEUE.put`, `heapq.heappush`): a name the function itself never binds
            return e.id in params or e.id[:1].isupper() or e.id in _MODULE_ROOTS

        def ok_name(nm) -> bool:
            return stores.get(nm) == 1 and nm not in params and nm not in declared
        changed = False

        def block(stmts):
            nonlocal changed
            # a, b = P, Q  with plain stable paths on the right: two aliases
            out = []
            for st in stmts:
                if isinstance(st, ast.Assign) and len(st.targets) == 1 and isinstance(st.targets[0], ast.Tuple) \
                        and isinstance(st.value, ast.Tuple) and len(st.targets[0].elts) == len(st.value.elts) \
                        and all(isinstance(t, ast.Name) and ok_name(t.id) for t in st.targets[0].elts) \
                        and all(stable(v) for v in st.value.elts):
                    for t, v in zip(st.targets[0].elts, st.value.elts):
                        out.append(ast.copy_location(ast.Assign(targets=[t], value=v), st))
                    changed = True
                else:
                    out.append(st)
            stmts[:] = out
            i = 0
            while i < len(stmts):
                st = stmts[i]
                if isinstance(st, ast.Assign) and len(st.targets) == 1 and isinstance(st.targets[0], ast.Name) \
                        and ok_name(st.targets[0].id) and stable(st.value, stmts[i + 1:]):
                    nm = st.targets[0].id
                    # every read of the alias lies in the statements that follow the definition in this block
                    n_after = sum(1 for s_ in stmts[i + 1:] for n in ast.walk(s_) if isinstance(n, ast.Name) and n.id == nm)
                    n_all = sum(1 for n in ast.walk(node) if isinstance(n, ast.Name) and n.id == nm)
                    if n_after == n_all - 1:
                        sub = _SubstName(nm, st.value)
                        for j in range(i + 1, len(stmts)):
                            stmts[j] = sub.visit(stmts[j])
                        del stmts[i]
                        changed = True
                        continue
                i += 1
            if not stmts:
                stmts.append(ast.copy_location(ast.Pass(), node))
            for st in stmts:
                if isinstance(st, (ast.FunctionDef, ast.AsyncFunctionDef, ast.ClassDef)):
                    continue
                for fld in ("body", "orelse", "finalbody"):
                    v = getattr(st, fld, None)
                    if isinstance(v, list) and v and isinstance(v[0], ast.stmt):
                        block(v)
                if isinstance(st, ast.Try):
                    for h in st.handlers:
                        block(h.body)
        block(node.body)
        return changed


class _SubstName(ast.NodeTransformer):
    def __init__(self, name, expr):
        self.name, self.expr = name, expr

    def visit_Name(self, node):
        if node.id == self.name and isinstance(node.ctx, ast.Load):
            return ast.copy_location(_clone(self.expr), node)
        return node


# N29: a flag parameter that no call in the package passes.  `def iter_nodes(self, *, reverse=False)` with every call site written
# `x.iter_nodes()` behaves, for the calls the package makes, like the function with `reverse` replaced by False: the parameter is
# substituted by its default and tests on the constant are folded.  A package-wide fact like REBOUND_ATTRS (closed world: what a
# caller outside the package does with the new parameter is not what the properties are about).  Only bool / None defaults, only
# functions that are never referenced other than by being called, never for dunder methods.
NEVER_PASSED: set = set()


FLAG_FIELDS: dict = {}      # attribute name -> constant: a field that is only ever assigned, in constructors, from a never-passed flag


def _enclosing_functions(tree):
    """yield (function node, class name or None) for every def, with its directly enclosing class"""
    def go(node, cls):
        for ch in ast.iter_child_nodes(node):
            if isinstance(ch, ast.ClassDef):
                yield from go(ch, ch.name)
            elif isinstance(ch, (ast.FunctionDef, ast.AsyncFunctionDef)):
                yield ch, cls
                yield from go(ch, None)
            else:
                yield from go(ch, cls)
    yield from go(tree, None)


def _call_key(fn, cls):
    """the name(s) under which calls reach this function: its own name; a constructor is reached as ClassName(...) and as
    super().__init__(...)"""
    if fn.name == "__init__" and cls:
        return [cls, "__init__"]
    if fn.name == "__call__":
        return ["__call__"]             # reached as obj(...): any call at all that passes the keyword counts
    if fn.name.startswith("__") and fn.name.endswith("__"):
        return []
    return [fn.name]


def collect_never_passed(trees) -> set:
    global FLAG_FIELDS
    cand = {}            # call name -> {param: default constant}   (keyword-only parameters with a bool / None default)
    clash = set()
    for t in trees:
        for fn, cls in _enclosing_functions(t):
            # only keyword-only flags: a positional-or-keyword parameter with a default (`arg_sort(..., reverse=False)`,
            # `rotate(front_to_back=True)`) is part of the documented behaviour the properties quantify over, whether or not the
            # package itself passes it
            for arg, d in zip(fn.args.kwonlyargs, fn.args.kw_defaults):
                if isinstance(d, ast.Constant) and (isinstance(d.value, bool) or d.value is None):
                    for key in _call_key(fn, cls):
                        slot = cand.setdefault(key, {})
                        if arg.arg in slot and slot[arg.arg] is not d.value:
                            clash.add((key, arg.arg))
                        slot[arg.arg] = d.value
    passed = set(clash)
    forwards = []        # ((callee name, param), (caller key, caller param)): passed on unchanged from a flag of the caller
    referenced = set()
    for t in trees:
        call_funcs = set()
        for fn, cls in list(_enclosing_functions(t)) + [(t, None)]:
            own = {}
            if not isinstance(fn, ast.Module):
                for key in _call_key(fn, cls):
                    own.update({p: (key, v) for p, v in cand.get(key, {}).items()})
            body_nodes = []
            stack = list(ast.iter_child_nodes(fn))
            while stack:
                n = stack.pop()
                if isinstance(n, (ast.FunctionDef, ast.AsyncFunctionDef, ast.ClassDef)):
                    continue
                body_nodes.append(n)
                stack.extend(ast.iter_child_nodes(n))
            for n in body_nodes:
                if not isinstance(n, ast.Call):
                    continue
                call_funcs.add(id(n.func))
                nm = n.func.id if isinstance(n.func, ast.Name) else n.func.attr if isinstance(n.func, ast.Attribute) else None
                if "__call__" in cand and nm != "__call__":
                    for k in n.keywords:
                        if k.arg in cand["__call__"] and not (isinstance(k.value, ast.Constant) and k.value.value is cand["__call__"][k.arg]):
                            passed.add(("__call__", k.arg))
                        # (a `**kw` on an arbitrary callable is not taken as passing the flag of some object's __call__: explicit
                        # keywords only; stated as an assumption in DESIGN.md, N29)
                if nm not in cand:
                    continue
                if nm == "__call__" and isinstance(n.func, ast.Attribute) and isinstance(n.func.value, ast.Call) \
                        and isinstance(n.func.value.func, ast.Name) and n.func.value.func.id == "super":
                    continue          # super().__call__(...) of a metaclass: type.__call__, not the __call__ of an object of the package
                if any(k.arg is None for k in n.keywords):
                    passed |= {(nm, p_) for p_ in cand[nm]}
                for k in n.keywords:
                    if k.arg in cand[nm]:
                        dflt = cand[nm][k.arg]
                        if isinstance(k.value, ast.Constant) and k.value.value is dflt:
                            continue
                        if isinstance(k.value, ast.Name) and k.value.id in own and own[k.value.id][1] is dflt:
                            forwards.append(((nm, k.arg), (own[k.value.id][0], k.value.id)))
                            continue
                        passed.add((nm, k.arg))
        for n in ast.walk(t):
            if isinstance(n, ast.Attribute) and isinstance(n.ctx, ast.Load) and id(n) not in call_funcs and n.attr in cand:
                referenced.add(n.attr)
            if isinstance(n, ast.Name) and isinstance(n.ctx, ast.Load) and id(n) not in call_funcs and n.id in cand \
                    and not n.id[:1].isupper():
                referenced.add(n.id)
    for _ in range(4):
        for callee, caller in forwards:
            if caller in passed and callee not in passed:
                passed.add(callee)
    out = set()
    for nm, slot in cand.items():
        if nm in referenced:
            continue                       # handed around as a value: who calls it, and how, is not known
        for param in slot:
            if (nm, param) not in passed:
                out.add((nm, param))
    # a constructor reached as ClassName(...) must also be clean under the name "__init__" (super().__init__(flag=...))
    out = {(nm, p_) for nm, p_ in out if nm == "__init__" or not nm[:1].isupper() or ("__init__", p_) in out or p_ not in cand.get("__init__", {})}
    # fields that only ever hold such a flag
    stores = {}
    for t in trees:
        for fn, cls in _enclosing_functions(t):
            for n in ast.walk(fn):
                if isinstance(n, ast.Attribute) and isinstance(n.ctx, (ast.Store, ast.Del)):
                    par_val = None
                    stores.setdefault(n.attr, []).append((fn, cls, n))
    FLAG_FIELDS = {}
    parents = {}
    for t in trees:
        for node in ast.walk(t):
            for ch in ast.iter_child_nodes(node):
                parents[id(ch)] = node
    for attr, lst in stores.items():
        vals = set()
        ok = True
        for fn, cls, n in lst:
            st = parents.get(id(n))
            if not (fn.name == "__init__" and cls and isinstance(st, ast.Assign) and len(st.targets) == 1 and st.targets[0] is n
                    and isinstance(st.value, ast.Name) and (cls, st.value.id) in out and st.value.id in cand.get(cls, {})):
                ok = False
                break
            vals.add(cand[cls][st.value.id])
        if ok and len(vals) == 1:
            FLAG_FIELDS[attr] = next(iter(vals))
    return out


class _FoldConst(ast.NodeTransformer):
    def visit_UnaryOp(self, node):
        self.generic_visit(node)
        if isinstance(node.op, ast.Not) and isinstance(node.operand, ast.Constant):
            return ast.copy_location(ast.Constant(not node.operand.value), node)
        return node

    def visit_BoolOp(self, node):
        self.generic_visit(node)
        is_and = isinstance(node.op, ast.And)
        vals = []
        for v in node.values:
            if isinstance(v, ast.Constant) and isinstance(v.value, (bool, type(None))):
                if bool(v.value) == is_and:
                    continue                               # neutral element
                return ast.copy_location(ast.Constant(v.value), node) if not vals else \
                    ast.copy_location(ast.BoolOp(op=node.op, values=vals + [v]), node)
            vals.append(v)
        if not vals:
            return ast.copy_location(ast.Constant(is_and), node)
        if len(vals) == 1:
            return vals[0]
        node.values = vals
        return node

    def visit_Compare(self, node):
        self.generic_visit(node)
        if len(node.ops) == 1 and isinstance(node.left, ast.Constant) and isinstance(node.comparators[0], ast.Constant) \
                and isinstance(node.ops[0], (ast.Is, ast.IsNot)) and (node.left.value is None or isinstance(node.left.value, bool)) \
                and (node.comparators[0].value is None or isinstance(node.comparators[0].value, bool)):
            r = node.left.value is node.comparators[0].value
            return ast.copy_location(ast.Constant(r if isinstance(node.ops[0], ast.Is) else not r), node)
        return node

    def visit_IfExp(self, node):
        self.generic_visit(node)
        if isinstance(node.test, ast.Constant):
            return node.body if node.test.value else node.orelse
        return node

    def visit_If(self, node):
        self.generic_visit(node)
        if isinstance(node.test, ast.Constant):
            keep = node.body if node.test.value else node.orelse
            return keep if keep else None
        return node


class _SpecialiseDefaults(ast.NodeTransformer):
    def __init__(self):
        self.cls = []

    def visit_ClassDef(self, node):
        self.cls.append(node.name)
        self.generic_visit(node)
        self.cls.pop()
        return node

    def visit_FunctionDef(self, node):
        cls = self.cls[-1] if self.cls else None
        self.cls.append(None)
        self.generic_visit(node)
        self.cls.pop()
        todo = {}
        a = node.args
        key = cls if node.name == "__init__" and cls else node.name
        for arg, d in [(x, d) for x, d in zip(a.kwonlyargs, a.kw_defaults) if d is not None]:
            if (key, arg.arg) in NEVER_PASSED and isinstance(d, ast.Constant):
                todo[arg.arg] = d.value
        me = (a.posonlyargs + a.args)[0].arg if cls and (a.posonlyargs + a.args) else None
        if FLAG_FIELDS and me and node.name != "__init__":
            class Fld(ast.NodeTransformer):
                def visit_Attribute(self, n):
                    self.generic_visit(n)
                    if isinstance(n.ctx, ast.Load) and n.attr in FLAG_FIELDS and isinstance(n.value, ast.Name) and n.value.id == me:
                        return ast.copy_location(ast.Constant(FLAG_FIELDS[n.attr]), n)
                    return n
            if any(isinstance(n, ast.Attribute) and n.attr in FLAG_FIELDS for n in ast.walk(node)):
                node.body = [Fld().visit(st) for st in node.body]
                nb = []
                for st in node.body:
                    r = _FoldConst().visit(st)
                    if r is None:
                        continue
                    nb += r if isinstance(r, list) else [r]
                node.body = nb or [ast.copy_location(ast.Pass(), node)]
        if not todo:
            return node
        # the idiom `if p is None: p = <fresh object>` (elif/else: what to do with a caller's object): with p never passed only the
        # first arm exists
        for pname in [k for k, v in todo.items() if v is None]:
            for i, st in enumerate(node.body):
                uses = any(isinstance(n, ast.Name) and n.id == pname for n in ast.walk(st))
                if not uses:
                    continue
                if isinstance(st, ast.If) and isinstance(st.test, ast.Compare) and len(st.test.ops) == 1 \
                        and isinstance(st.test.ops[0], ast.Is) and isinstance(st.test.left, ast.Name) and st.test.left.id == pname \
                        and isinstance(st.test.comparators[0], ast.Constant) and st.test.comparators[0].value is None \
                        and any(isinstance(x, ast.Assign) and len(x.targets) == 1 and isinstance(x.targets[0], ast.Name)
                                and x.targets[0].id == pname for x in st.body) \
                        and not any(isinstance(n, ast.Name) and n.id == pname and isinstance(n.ctx, ast.Load) for x in st.body for n in ast.walk(x)):
                    node.body[i:i + 1] = st.body
                    todo.pop(pname, None)
                break
        for n in ast.walk(node):
            if isinstance(n, ast.Name) and n.id in todo and isinstance(n.ctx, (ast.Store, ast.Del)):
                todo.pop(n.id, None)
            if isinstance(n, (ast.Global, ast.Nonlocal)):
                for x in n.names:
                    todo.pop(x, None)
        if not todo:
            return node

        class Sub(ast.NodeTransformer):
            def visit_Name(self, n):
                if n.id in todo and isinstance(n.ctx, ast.Load):
                    return ast.copy_location(ast.Constant(todo[n.id]), n)
                return n

            def visit_Call(self, n):
                self.generic_visit(n)
                nm = n.func.id if isinstance(n.func, ast.Name) else n.func.attr if isinstance(n.func, ast.Attribute) else None
                # a flag handed on to a callee that is itself specialised on it: the keyword says nothing any more
                n.keywords = [k for k in n.keywords if not (k.arg is not None and (nm, k.arg) in NEVER_PASSED
                                                            and isinstance(k.value, ast.Constant))]
                return n

            def visit_FunctionDef(self, n):          # nested defs may shadow: leave them alone
                return n
            visit_Lambda = visit_AsyncFunctionDef = visit_FunctionDef
        node.body = [Sub().visit(st) for st in node.body]
        new_body = []
        for st in node.body:
            r = _FoldConst().visit(st)
            if r is None:
                continue
            new_body += r if isinstance(r, list) else [r]
        node.body = new_body or [ast.copy_location(ast.Pass(), node)]
        return node
    visit_AsyncFunctionDef = visit_FunctionDef


def _walrus_first(test):
    """(holder, field, index, NamedExpr) when an assignment expression binding a plain name is the first thing ``test`` evaluates"""
    holder, fld, idx = None, None, None
    e = test
    while True:
        if isinstance(e, ast.NamedExpr):
            return (holder, fld, idx, e) if isinstance(e.target, ast.Name) else None
        if isinstance(e, ast.UnaryOp) and isinstance(e.op, ast.Not):
            holder, fld, idx, e = e, "operand", None, e.operand
        elif isinstance(e, ast.BoolOp):
            holder, fld, idx, e = e, "values", 0, e.values[0]
        elif isinstance(e, ast.Compare):
            holder, fld, idx, e = e, "left", None, e.left
        else:
            return None


def _unwalrus(test):
    """(binding statement, the test reading the bound name) for a test whose first evaluated thing is `name := E` and that holds no
    other assignment expression; None otherwise"""
    slot = _walrus_first(test)
    if slot is None or sum(1 for n in ast.walk(test) if isinstance(n, ast.NamedExpr)) != 1:
        return None
    holder, fld, idx, ne = slot
    read = ast.copy_location(ast.Name(id=ne.target.id, ctx=ast.Load()), ne)
    if holder is None:
        new_test = read
    else:
        new_test = test
        if idx is None:
            setattr(holder, fld, read)
        else:
            getattr(holder, fld)[idx] = read
    bind = ast.copy_location(ast.Assign(targets=[ast.Name(id=ne.target.id, ctx=ast.Store())], value=ne.value), ne)
    return bind, new_test


class _IterSentinel(ast.NodeTransformer):
    def visit_While(self, node: ast.While):
        # N41: while (t := E) <rest of test>: BODY      ->      while True: t = E; if not (t <rest of test>): break; BODY
        #      if (t := E) <rest of test>: ...           ->      t = E; if t <rest of test>: ...
        # (the assignment expression is the first thing the test evaluates; a `continue` of BODY re-enters at the binding, as it
        # re-evaluated the test before)
        self.generic_visit(node)
        if node.orelse:
            return node
        r = _unwalrus(node.test)
        if r is None:
            return node
        bind, test = r
        brk = ast.copy_location(ast.If(test=_negate(test), body=[ast.copy_location(ast.Break(), node)], orelse=[]), node)
        loop = ast.While(test=ast.copy_location(ast.Constant(value=True), node), body=[bind, brk] + list(node.body), orelse=[])
        return ast.fix_missing_locations(ast.copy_location(loop, node))

    def visit_If(self, node: ast.If):
        self.generic_visit(node)
        # N45: if c: A else: break   ->   if not c: break;  A          if c: break else: A   ->   if c: break;  A
        # (an arm that is nothing but `break` leaves the loop: the other arm is what follows the exit test)
        if node.orelse and len(node.orelse) == 1 and isinstance(node.orelse[0], ast.Break) and node.body \
                and not (len(node.body) == 1 and isinstance(node.body[0], ast.Break)):
            guard = ast.copy_location(ast.If(test=_negate(node.test), body=node.orelse, orelse=[]), node)
            return [ast.fix_missing_locations(guard)] + list(node.body)
        if node.orelse and len(node.body) == 1 and isinstance(node.body[0], ast.Break) \
                and not (len(node.orelse) == 1 and isinstance(node.orelse[0], ast.If)):
            rest = list(node.orelse)
            node.orelse = []
            return [node] + rest
        r = _unwalrus(node.test)
        if r is None:
            return node
        bind, test = r
        node.test = test
        return [bind, ast.fix_missing_locations(node)]

    def visit_FunctionDef(self, node):
        # N38: at the top level of a function   if c: A...; return      REST      ->      if c: A...  else: REST
        # (a bare `return` closing an arm that does real work: the two-armed form of the same dispatch; plain guard clauses -
        # `if c: return`, `if c: raise ...`, `if c: return value` - stay as they are)
        self._depth = getattr(self, "_depth", 0) + 1
        try:
            self.generic_visit(node)
        finally:
            self._depth -= 1
        for k, st in enumerate(node.body):
            if isinstance(st, ast.If) and not st.orelse and len(st.body) >= 2 and isinstance(st.body[-1], ast.Return) \
                    and st.body[-1].value is None and k + 1 < len(node.body) \
                    and not any(isinstance(x, (ast.FunctionDef, ast.AsyncFunctionDef, ast.ClassDef)) for x in node.body[k + 1:]):
                st.body = st.body[:-1]
                st.orelse = node.body[k + 1:]
                node.body = node.body[:k + 1]
                break
        return node

    visit_AsyncFunctionDef = visit_FunctionDef

    def visit_AnnAssign(self, node: ast.AnnAssign):
        # N10 (early, so that the alias pass sees it): inside a function `name: T = value` is `name = value`
        self.generic_visit(node)
        if getattr(self, "_depth", 0) > 0 and node.value is not None and isinstance(node.target, ast.Name):
            return ast.copy_location(ast.Assign(targets=[node.target], value=node.value), node)
        return node

    @staticmethod
    def _filtered_source(node: ast.For):
        # N34: for T in (v for v in IT if C): BODY      ->      for T in IT: if C[T/v]: BODY        (also the list form [v for ...])
        it = node.iter
        if isinstance(it, (ast.GeneratorExp, ast.ListComp)) and len(it.generators) == 1 and not it.generators[0].is_async \
                and isinstance(it.elt, ast.Name) and isinstance(it.generators[0].target, ast.Name) \
                and it.elt.id == it.generators[0].target.id and isinstance(node.target, ast.Name) and it.generators[0].ifs:
            g = it.generators[0]
            v, t = g.target.id, node.target.id
            if any(isinstance(n, ast.Name) and n.id == t for c in g.ifs for n in ast.walk(c)):
                return None
            if any(isinstance(n, (ast.Break, ast.Continue)) for st in node.body for n in ast.walk(st)) and False:
                return None

            class _R(ast.NodeTransformer):
                def visit_Name(self_, n):
                    return ast.copy_location(ast.Name(id=t, ctx=n.ctx), n) if n.id == v else n
            tests = [_R().visit(c) for c in g.ifs]
            test = tests[0] if len(tests) == 1 else ast.copy_location(ast.BoolOp(op=ast.And(), values=tests), tests[0])
            guard = ast.copy_location(ast.If(test=test, body=node.body, orelse=[]), node)
            return ast.copy_location(ast.For(target=node.target, iter=g.iter, body=[guard], orelse=node.orelse), node)
        return None

    def visit_Assign(self, node: ast.Assign):
        # N32: a = b = E  (names and plain attribute paths)   ->   b = E; a = b       (E evaluated once, as in the chained form;
        # a constant or a name on the right is simply repeated)
        self.generic_visit(node)
        # N44: a, b = E1, E2  (plain names on the left, as many expressions on the right, none of which reads a or b)  ->  a = E1; b = E2
        if len(node.targets) == 1 and isinstance(node.targets[0], (ast.Tuple, ast.List)) and isinstance(node.value, (ast.Tuple, ast.List)) \
                and len(node.targets[0].elts) == len(node.value.elts) and all(isinstance(t, ast.Name) for t in node.targets[0].elts) \
                and not any(isinstance(v, ast.Starred) for v in node.value.elts):
            names = {t.id for t in node.targets[0].elts}
            if len(names) == len(node.targets[0].elts) and not any(isinstance(x, ast.Name) and x.id in names for v in node.value.elts for x in ast.walk(v)) \
                    and not any(isinstance(x, (ast.NamedExpr, ast.Lambda)) for v in node.value.elts for x in ast.walk(v)):
                return [ast.copy_location(ast.Assign(targets=[t], value=v), node) for t, v in zip(node.targets[0].elts, node.value.elts)]
        if len(node.targets) < 2 or not all(isinstance(t, ast.Name) or (isinstance(t, ast.Attribute) and _pure_path(t)) for t in node.targets):
            return node
        if isinstance(node.value, (ast.Constant, ast.Name)):
            return [ast.copy_location(ast.Assign(targets=[t], value=_clone(node.value)), node) for t in node.targets]
        names = [t for t in node.targets if isinstance(t, ast.Name)]
        if not names:
            return node
        first = names[0]
        out = [ast.copy_location(ast.Assign(targets=[first], value=node.value), node)]
        for t in node.targets:
            if t is not first:
                out.append(ast.copy_location(ast.Assign(targets=[t], value=ast.copy_location(ast.Name(id=first.id, ctx=ast.Load()), node)), node))
        return out

    def visit_For(self, node: ast.For):
        # N31: for T in iter(F, None): BODY  [else: E]     ->     while True: t = F(); if t is None: E; break;  T = t; BODY
        # (the two-argument iter() with the None sentinel: the receive loop of a queue.  iter() compares with ==, the rewrite uses
        # `is None`, the form the receive loops of the package are written in - items of the queues are tuples and integers,
        # which equal None only when they are None.  A plain name target is bound by the call directly.  Other sentinels
        # (`iter(f.readline, b"")`) stay as they are: that form is itself the idiom the file rules read.)
        flt = self._filtered_source(node)
        if flt is not None:
            return self.generic_visit(ast.fix_missing_locations(flt))
        it = node.iter
        if isinstance(it, ast.Call) and isinstance(it.func, ast.Name) and it.func.id == "iter" and len(it.args) == 2 and not it.keywords \
                and _pure_path(it.args[0]) and isinstance(it.args[1], ast.Constant) and it.args[1].value is None \
                and not isinstance(node, ast.AsyncFor):
            sent = it.args[1]
            is_none = isinstance(sent, ast.Constant) and sent.value is None
            direct = isinstance(node.target, ast.Name)
            tname = node.target.id if direct else f"_item{node.lineno}"

            def nm(ctx):
                return ast.copy_location(ast.Name(id=tname, ctx=ctx), node)
            call = ast.copy_location(ast.Call(func=it.args[0], args=[], keywords=[]), it)
            recv = ast.copy_location(ast.Assign(targets=[nm(ast.Store())], value=call), node)
            test = ast.copy_location(ast.Compare(left=nm(ast.Load()), ops=[ast.Is() if is_none else ast.Eq()], comparators=[sent]), it)
            brk = ast.copy_location(ast.If(test=test, body=list(node.orelse) + [ast.copy_location(ast.Break(), node)], orelse=[]), node)
            body = [recv, brk]
            if not direct:
                body.append(ast.copy_location(ast.Assign(targets=[node.target], value=nm(ast.Load())), node))
            loop = ast.copy_location(ast.While(test=ast.copy_location(ast.Constant(value=True), node), body=body + list(node.body), orelse=[]), node)
            return self.generic_visit(ast.fix_missing_locations(loop))
        return self.generic_visit(node)


class _CountingLoops(ast.NodeTransformer):
    """N36:  i = A; while i < B: BODY; i += 1      ->      for i in range(A, B): BODY
    B is a name / constant that the loop does not re-bind (so it is the bound the for loop evaluates once), BODY has no `continue`
    of this loop and does not assign i, and i is not used outside the initialisation and the loop (after the loop it would be B,
    not B - 1).  `while B > i` is read the same way."""

    def visit_FunctionDef(self, node):
        self.generic_visit(node)
        self._fn = node
        self._blocks(node)
        return node

    visit_AsyncFunctionDef = visit_FunctionDef

    def _blocks(self, node):
        for fld in ("body", "orelse", "finalbody"):
            blk = getattr(node, fld, None)
            if isinstance(blk, list) and blk and isinstance(blk[0], ast.stmt):
                self._one(blk)
                for st in blk:
                    if not isinstance(st, (ast.FunctionDef, ast.AsyncFunctionDef, ast.ClassDef)):
                        self._blocks(st)
        for h in getattr(node, "handlers", []) or []:
            self._blocks(h)

    @staticmethod
    def _own_continue(stmts) -> bool:
        def go(n) -> bool:
            if isinstance(n, ast.Continue):
                return True
            if isinstance(n, (ast.For, ast.While, ast.AsyncFor, ast.FunctionDef, ast.AsyncFunctionDef, ast.ClassDef, ast.Lambda)):
                # a nested loop owns its continues (its else arm does not, but that is rare enough to give up on)
                return any(go(x) for x in getattr(n, "orelse", []) or []) if isinstance(n, (ast.For, ast.While, ast.AsyncFor)) else False
            return any(go(c) for c in ast.iter_child_nodes(n))
        return any(go(s) for s in stmts)

    def _one(self, blk):
        k = 0
        while k < len(blk):
            lp = blk[k]
            k += 1
            if not (isinstance(lp, ast.While) and not lp.orelse and isinstance(lp.test, ast.Compare) and len(lp.test.ops) == 1 and len(lp.body) >= 2):
                continue
            l, op, r = lp.test.left, lp.test.ops[0], lp.test.comparators[0]
            if isinstance(op, ast.Gt):
                l, r, op = r, l, ast.Lt()
            if not (isinstance(op, ast.Lt) and isinstance(l, ast.Name)):
                continue
            i = l.id
            if not (isinstance(r, ast.Name) or (isinstance(r, ast.Constant) and isinstance(r.value, int))):
                continue
            last = lp.body[-1]
            if not (isinstance(last, ast.AugAssign) and isinstance(last.op, ast.Add) and isinstance(last.target, ast.Name) and last.target.id == i
                    and isinstance(last.value, ast.Constant) and last.value.value == 1 and not isinstance(last.value.value, bool)):
                continue
            body = lp.body[:-1]
            stored_in_body = {n.id for s_ in body for n in ast.walk(s_) if isinstance(n, ast.Name) and isinstance(n.ctx, (ast.Store, ast.Del))}
            if i in stored_in_body or (isinstance(r, ast.Name) and (r.id in stored_in_body or r.id == i)) or self._own_continue(body):
                continue
            # the initialisation: the closest preceding statement of the block, reached over plain assignments that do not mention i
            j = k - 2
            init = None
            while j >= 0:
                st = blk[j]
                if isinstance(st, ast.Assign) and len(st.targets) == 1 and isinstance(st.targets[0], ast.Name) and st.targets[0].id == i:
                    init = st
                    break
                if not isinstance(st, ast.Assign) or any(isinstance(n, ast.Name) and n.id == i for n in ast.walk(st)) \
                        or (isinstance(r, ast.Name) and False):
                    break
                j -= 1
            if init is None or any(isinstance(n, ast.Name) and n.id == i for n in ast.walk(init.value)):
                continue
            if not (isinstance(init.value, ast.Name) or (isinstance(init.value, ast.Constant) and isinstance(init.value.value, int))):
                continue
            # the bound must not be re-bound between the initialisation and the loop in a way that reads i (it cannot: no mention
            # of i there); i is used nowhere else in the function
            inside = sum(1 for n in ast.walk(lp) if isinstance(n, ast.Name) and n.id == i) + \
                sum(1 for n in ast.walk(init) if isinstance(n, ast.Name) and n.id == i)
            total = sum(1 for n in ast.walk(self._fn) if isinstance(n, ast.Name) and n.id == i)
            if inside != total or any(isinstance(n, (ast.Global, ast.Nonlocal)) and i in n.names for n in ast.walk(self._fn)):
                continue
            args = [r] if (isinstance(init.value, ast.Constant) and init.value.value == 0) else [init.value, r]
            rng = ast.Call(func=ast.Name(id="range", ctx=ast.Load()), args=args, keywords=[])
            new = ast.For(target=ast.Name(id=i, ctx=ast.Store()), iter=rng, body=body, orelse=[])
            blk[k - 1] = ast.fix_missing_locations(ast.copy_location(new, lp))
            del blk[j]
            k -= 1


class _ManualIteration(_CountingLoops):
    """N39: the iterator protocol written by hand
             S = object(); it = iter(X)
             while True:  p = next(it, S);  if p is S: break;  BODY            ->      for p in X: BODY
             while True:  try: p = next(it)  except StopIteration: break;  BODY  ->      for p in X: BODY
    `it` is bound once, directly in front of the loop (at most the sentinel's binding in between), and used only by that next();
    the sentinel is a fresh object() used only there; p is not used outside the loop."""

    def _count(self, name):
        return sum(1 for n in ast.walk(self._fn) if isinstance(n, ast.Name) and n.id == name)

    def _one(self, blk):
        k = 0
        while k < len(blk):
            lp = blk[k]
            k += 1
            if not (isinstance(lp, ast.While) and isinstance(lp.test, ast.Constant) and lp.test.value is True and not lp.orelse and lp.body):
                continue
            first = lp.body[0]
            it_name = p_name = sent = None
            rest = None
            if isinstance(first, ast.Assign) and len(first.targets) == 1 and isinstance(first.targets[0], ast.Name) \
                    and isinstance(first.value, ast.Call) and isinstance(first.value.func, ast.Name) and first.value.func.id == "next" \
                    and len(first.value.args) == 2 and not first.value.keywords and all(isinstance(a, ast.Name) for a in first.value.args) \
                    and len(lp.body) >= 2:
                g = lp.body[1]
                p_name, it_name, sent = first.targets[0].id, first.value.args[0].id, first.value.args[1].id
                if not (isinstance(g, ast.If) and not g.orelse and len(g.body) == 1 and isinstance(g.body[0], ast.Break)
                        and isinstance(g.test, ast.Compare) and len(g.test.ops) == 1 and isinstance(g.test.ops[0], ast.Is)
                        and {src_(g.test.left), src_(g.test.comparators[0])} == {p_name, sent}):
                    continue
                rest = lp.body[2:]
            elif isinstance(first, ast.Try) and len(first.body) == 1 and not first.orelse and not first.finalbody and len(first.handlers) == 1 \
                    and isinstance(first.handlers[0].type, ast.Name) and first.handlers[0].type.id == "StopIteration" \
                    and len(first.handlers[0].body) == 1 and isinstance(first.handlers[0].body[0], ast.Break):
                a = first.body[0]
                if not (isinstance(a, ast.Assign) and len(a.targets) == 1 and isinstance(a.targets[0], ast.Name)
                        and isinstance(a.value, ast.Call) and isinstance(a.value.func, ast.Name) and a.value.func.id == "next"
                        and len(a.value.args) == 1 and isinstance(a.value.args[0], ast.Name) and not a.value.keywords):
                    continue
                p_name, it_name = a.targets[0].id, a.value.args[0].id
                rest = lp.body[1:]
            else:
                continue
            if not rest:
                continue
            # the iterator's binding: directly in front of the loop, at most the sentinel's binding in between
            j = k - 2
            drop = []
            if sent is not None and j >= 0 and self._is_sentinel(blk[j], sent):
                drop.append(j)
                j -= 1
            bind = blk[j] if j >= 0 else None
            if not (isinstance(bind, ast.Assign) and len(bind.targets) == 1 and isinstance(bind.targets[0], ast.Name)
                    and bind.targets[0].id == it_name and isinstance(bind.value, ast.Call) and isinstance(bind.value.func, ast.Name)
                    and bind.value.func.id == "iter" and len(bind.value.args) == 1 and not bind.value.keywords):
                continue
            drop.append(j)
            if sent is not None and len(drop) == 1:
                # the sentinel was bound earlier in this block
                cand = [m for m in range(j) if self._is_sentinel(blk[m], sent)]
                if len(cand) != 1:
                    continue
                drop.append(cand[0])
            if self._count(it_name) != 2 or (sent is not None and self._count(sent) != 3):
                continue
            inside = sum(1 for n in ast.walk(lp) if isinstance(n, ast.Name) and n.id == p_name)
            if inside != self._count(p_name):
                continue
            new = ast.For(target=ast.Name(id=p_name, ctx=ast.Store()), iter=bind.value.args[0], body=rest, orelse=[])
            blk[k - 1] = ast.fix_missing_locations(ast.copy_location(new, lp))
            for m in sorted(drop, reverse=True):
                del blk[m]
                k -= 1

    @staticmethod
    def _is_sentinel(st, name) -> bool:
        return isinstance(st, ast.Assign) and len(st.targets) == 1 and isinstance(st.targets[0], ast.Name) and st.targets[0].id == name \
            and isinstance(st.value, ast.Call) and isinstance(st.value.func, ast.Name) and st.value.func.id == "object" \
            and not st.value.args and not st.value.keywords


def src_(e) -> str:
    return ast.unparse(e)


# N43: named constants.  A class-level `NAME = <constant>` (None / bool / number / str) whose name is stored to nowhere else in the
# package reads as the constant through self / cls / the class / type(self); a module-level `NAME = <constant>` bound once in its
# module (no other store, no parameter or local of that name) reads as the constant inside the module.
CLASS_CONSTS: dict = {}


def _const_binding(st):
    if isinstance(st, ast.Assign) and len(st.targets) == 1 and isinstance(st.targets[0], ast.Name):
        tgt, val = st.targets[0].id, st.value
    elif isinstance(st, ast.AnnAssign) and isinstance(st.target, ast.Name) and st.value is not None:
        tgt, val = st.target.id, st.value
    else:
        return None
    if isinstance(val, ast.UnaryOp) and isinstance(val.op, ast.USub) and isinstance(val.operand, ast.Constant) \
            and isinstance(val.operand.value, (int, float)):
        return tgt, val
    if isinstance(val, ast.Constant) and (val.value is None or isinstance(val.value, (bool, int, float, str, bytes))):
        return tgt, val
    return None


def _class_const_binding(cls_node: ast.ClassDef, st):
    """a constant of the class itself: a plain assignment (or one annotated ClassVar) in a class that is not an enumeration; an
    annotated attribute with a default is a dataclass / NamedTuple *field*, whose value the generated constructor sets"""
    if any("Enum" in ast.unparse(b) or "Flag" in ast.unparse(b) for b in cls_node.bases):
        return None
    if isinstance(st, ast.AnnAssign) and "ClassVar" not in ast.unparse(st.annotation):
        return None
    return _const_binding(st)


def collect_class_consts(trees) -> dict:
    cand: dict = {}
    bad = set()
    for t in trees:
        for n in ast.walk(t):
            if isinstance(n, ast.ClassDef):
                for st in n.body:
                    b = _class_const_binding(n, st)
                    if b is not None:
                        cand.setdefault(b[0], b[1])
                    elif isinstance(st, (ast.Assign, ast.AnnAssign, ast.AugAssign)):
                        for x in ast.walk(st):
                            if isinstance(x, ast.Name) and isinstance(x.ctx, ast.Store):
                                bad.add(x.id)
            if isinstance(n, ast.Attribute) and isinstance(n.ctx, (ast.Store, ast.Del)):
                bad.add(n.attr)
            if isinstance(n, ast.Call) and isinstance(n.func, ast.Name) and n.func.id in ("setattr", "delattr"):
                return {}
    # a name bound as a constant in two class bodies is not one fact
    seen: dict = {}
    for t in trees:
        for n in ast.walk(t):
            if isinstance(n, ast.ClassDef):
                for st in n.body:
                    b = _const_binding(st)         # any binding of the name in any class body counts against uniqueness
                    if b is not None:
                        seen[b[0]] = seen.get(b[0], 0) + 1
    return {k: v for k, v in cand.items() if k not in bad and seen.get(k) == 1 and not (k.startswith("__") and k.endswith("__"))}


class _PropagateConsts(ast.NodeTransformer):
    def __init__(self, tree: ast.Module):
        # module-level constants of this module
        binds: dict = {}
        count: dict = {}
        for st in tree.body:
            b = _const_binding(st)
            if b is not None:
                binds[b[0]] = b[1]
        for n in ast.walk(tree):
            if isinstance(n, ast.Name) and isinstance(n.ctx, (ast.Store, ast.Del)):
                count[n.id] = count.get(n.id, 0) + 1
            elif isinstance(n, ast.arg):
                count[n.arg] = count.get(n.arg, 0) + 2
            elif isinstance(n, (ast.Global, ast.Nonlocal)):
                for nm in n.names:
                    count[nm] = count.get(nm, 0) + 2
            elif isinstance(n, (ast.FunctionDef, ast.AsyncFunctionDef, ast.ClassDef)):
                count[n.name] = count.get(n.name, 0) + 2
            elif isinstance(n, (ast.Import, ast.ImportFrom)):
                for a in n.names:
                    nm = (a.asname or a.name).split(".")[0]
                    count[nm] = count.get(nm, 0) + 2
        self.mod = {k: v for k, v in binds.items() if count.get(k) == 1 and k not in ("__all__",) and not (k.startswith("__") and k.endswith("__"))}

    def visit_Name(self, n: ast.Name):
        if isinstance(n.ctx, ast.Load) and n.id in self.mod:
            return ast.copy_location(_clone(self.mod[n.id]), n)
        return n

    def visit_FunctionDef(self, node):
        # N46: a local bound exactly once in its function, to a constant (`stop_token = None`, `poll = 0.1`), reads as that constant
        # (parameters, names declared global / nonlocal, loop and with targets, and names bound more than once are left alone)
        self.generic_visit(node)
        if getattr(self, "_in_fn", 0):
            return node                                  # decided at the outermost function: a closure sees the same binding
        count: dict = {}
        binds: dict = {}
        for n in ast.walk(node):
            if isinstance(n, ast.Name) and isinstance(n.ctx, (ast.Store, ast.Del)):
                count[n.id] = count.get(n.id, 0) + 1
            elif isinstance(n, ast.arg):
                count[n.arg] = count.get(n.arg, 0) + 2
            elif isinstance(n, (ast.Global, ast.Nonlocal)):
                for nm in n.names:
                    count[nm] = count.get(nm, 0) + 2
            elif isinstance(n, (ast.FunctionDef, ast.AsyncFunctionDef, ast.ClassDef)) and n is not node:
                count[n.name] = count.get(n.name, 0) + 2
            elif isinstance(n, (ast.Import, ast.ImportFrom)):
                for a in n.names:
                    nm = (a.asname or a.name).split(".")[0]
                    count[nm] = count.get(nm, 0) + 2
            elif isinstance(n, ast.ExceptHandler) and n.name:
                count[n.name] = count.get(n.name, 0) + 2
            if isinstance(n, (ast.Assign, ast.AnnAssign)):
                b = _const_binding(n)
                if b is not None:
                    binds[b[0]] = b[1]
        consts = {k: v for k, v in binds.items() if count.get(k) == 1}
        if not consts:
            return node

        class _S(ast.NodeTransformer):
            def visit_Name(s_, n):
                if isinstance(n.ctx, ast.Load) and n.id in consts:
                    return ast.copy_location(_clone(consts[n.id]), n)
                return n
        return _S().visit(node)

    visit_AsyncFunctionDef = visit_FunctionDef

    def visit_Attribute(self, n: ast.Attribute):
        self.generic_visit(n)
        if isinstance(n.ctx, ast.Load) and n.attr in CLASS_CONSTS:
            v = n.value
            recv_ok = (isinstance(v, ast.Name) and (v.id in ("self", "cls") or v.id[:1].isupper())) \
                or (isinstance(v, ast.Call) and isinstance(v.func, ast.Name) and v.func.id == "type" and len(v.args) == 1) \
                or (isinstance(v, ast.Attribute) and v.attr == "__class__")
            if recv_ok:
                return ast.copy_location(_clone(CLASS_CONSTS[n.attr]), n)
        return n


def normalise(tree: ast.Module) -> ast.Module:
    roots = _inert_roots(tree)
    if roots:
        tree = _DropInert(roots).visit(tree)
    pc = _PropagateConsts(tree)
    tree = pc.visit(tree)
    if NEVER_PASSED or FLAG_FIELDS:
        tree = _SpecialiseDefaults().visit(tree)
    tree = _IterSentinel().visit(tree)
    tree = _ManualIteration().visit(tree)
    tree = _CountingLoops().visit(tree)
    tree = _AliasFields().visit(tree)
    tree = _N().visit(tree)
    ast.fix_missing_locations(tree)
    return tree
