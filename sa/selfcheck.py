"""Checker self-validation: behaviour-preserving whole-program edits must leave every rule instance OK.

Each transformation rewrites the parsed sources of windpyutils/ (in memory, via ``ast.unparse``) in a way that does
not change behaviour; the variant program is analysed through ``Program(overlay=...)``.  A VIOLATION or an
ANALYSIS-ERROR on a variant is a defect of the *checker* (a brittle rule), never of the repository.
"""
from __future__ import annotations

import ast
import copy
from typing import Callable, Dict, List, Optional

from .model import PKG, Program, repo_root


# ---------------------------------------------------------------------------------------------- transformations
class RenameLocals(ast.NodeTransformer):
    """consistently rename the plain local variables of every function (parameters, globals, closures untouched)"""

    def _locals(self, fn) -> Dict[str, str]:
        params = {a.arg for a in fn.args.posonlyargs + fn.args.args + fn.args.kwonlyargs}
        if fn.args.vararg:
            params.add(fn.args.vararg.arg)
        if fn.args.kwarg:
            params.add(fn.args.kwarg.arg)
        stores, nested_uses, declared = set(), set(), set()

        def walk(n, nested):
            for ch in ast.iter_child_nodes(n):
                if isinstance(ch, (ast.FunctionDef, ast.AsyncFunctionDef, ast.Lambda, ast.ClassDef)):
                    for sub in ast.walk(ch):
                        if isinstance(sub, ast.Name):
                            nested_uses.add(sub.id)
                    if isinstance(ch, (ast.FunctionDef, ast.AsyncFunctionDef, ast.ClassDef)):
                        declared.add(ch.name)
                    continue
                if isinstance(ch, (ast.Global, ast.Nonlocal)):
                    declared.update(ch.names)
                if isinstance(ch, ast.Name) and isinstance(ch.ctx, (ast.Store, ast.Del)):
                    stores.add(ch.id)
                if isinstance(ch, ast.ExceptHandler) and ch.name:
                    declared.add(ch.name)
                walk(ch, nested)
        walk(fn, False)
        names = stores - params - nested_uses - declared - {"_"}
        return {n: f"{n}_rn" for n in names}

    def visit_FunctionDef(self, node):
        mapping = self._locals(node)

        class R(ast.NodeTransformer):
            def visit_Name(s, n):
                if n.id in mapping:
                    return ast.copy_location(ast.Name(id=mapping[n.id], ctx=n.ctx), n)
                return n

            def visit_FunctionDef(s, n):
                return n  # nested functions keep their own names

            visit_AsyncFunctionDef = visit_FunctionDef
            visit_Lambda = visit_FunctionDef
            visit_ClassDef = visit_FunctionDef

        node.body = [R().visit(st) for st in node.body]
        # nested functions are renamed on their own
        for st in ast.walk(node):
            if st is not node and isinstance(st, (ast.FunctionDef, ast.AsyncFunctionDef)):
                pass
        self.generic_visit(node)
        return node


class InsertNoise(ast.NodeTransformer):
    """a `pass` at the start of every function body (after the docstring)"""

    def visit_FunctionDef(self, node):
        self.generic_visit(node)
        i = 1 if node.body and isinstance(node.body[0], ast.Expr) and isinstance(node.body[0].value, ast.Constant) \
            and isinstance(node.body[0].value.value, str) else 0
        node.body.insert(i, ast.Pass())
        return node


class AugToAssign(ast.NodeTransformer):
    """x += c  ->  x = x + c   (names and attributes; subscripts would evaluate the index twice)"""

    def visit_AugAssign(self, node):
        if isinstance(node.target, (ast.Name, ast.Attribute)):
            load = copy.deepcopy(node.target)
            for n in ast.walk(load):
                if hasattr(n, "ctx"):
                    n.ctx = ast.Load()
            return ast.copy_location(ast.Assign(targets=[node.target], value=ast.BinOp(left=load, op=node.op, right=node.value)), node)
        return node


MIRROR = {ast.Lt: ast.Gt, ast.Gt: ast.Lt, ast.LtE: ast.GtE, ast.GtE: ast.LtE, ast.Eq: ast.Eq, ast.NotEq: ast.NotEq}


class FlipCompare(ast.NodeTransformer):
    """a < b  ->  b > a  (single comparisons of side-effect free operands; not inside classes that define rich comparison
    methods, where `a <= b` and `b >= a` dispatch to different code)"""

    def visit_ClassDef(self, node):
        if any(isinstance(n, ast.FunctionDef) and n.name in ("__le__", "__lt__", "__ge__", "__gt__", "__eq__") for n in node.body):
            return node
        self.generic_visit(node)
        return node

    def visit_Compare(self, node):
        self.generic_visit(node)
        if len(node.ops) == 1 and type(node.ops[0]) in MIRROR and not any(isinstance(n, (ast.Call, ast.Yield, ast.Await))
                                                                       for n in ast.walk(node)):
            return ast.copy_location(ast.Compare(left=node.comparators[0], ops=[MIRROR[type(node.ops[0])]()],
                                                 comparators=[node.left]), node)
        return node


class SwapIfElse(ast.NodeTransformer):
    """if c: A else: B  ->  if not c: B else: A   (plain two-armed ifs, no elif chains)"""

    def visit_If(self, node):
        self.generic_visit(node)
        if node.orelse and not (len(node.orelse) == 1 and isinstance(node.orelse[0], ast.If)):
            test = node.test.operand if isinstance(node.test, ast.UnaryOp) and isinstance(node.test.op, ast.Not) \
                else ast.UnaryOp(op=ast.Not(), operand=node.test)
            return ast.copy_location(ast.If(test=test, body=node.orelse, orelse=node.body), node)
        return node


class ExtractTemp(ast.NodeTransformer):
    """return <call>  ->  tmp = <call>; return tmp   (introduces a local where a value was returned directly)"""

    def __init__(self):
        self.n = 0

    def visit_FunctionDef(self, node):
        self.generic_visit(node)
        node.body = self._rewrite(node.body)
        return node

    def _rewrite(self, stmts):
        out = []
        for st in stmts:
            for fld in ("body", "orelse", "finalbody"):
                if hasattr(st, fld) and isinstance(getattr(st, fld), list) and not isinstance(st, (ast.FunctionDef, ast.ClassDef)):
                    setattr(st, fld, self._rewrite(getattr(st, fld)))
            if isinstance(st, ast.Try):
                for h in st.handlers:
                    h.body = self._rewrite(h.body)
            if isinstance(st, ast.Return) and isinstance(st.value, ast.Call) and not any(isinstance(n, (ast.Yield, ast.YieldFrom))
                                                                                      for n in ast.walk(st.value)):
                self.n += 1
                name = f"ret_tmp{self.n}"
                out.append(ast.copy_location(ast.Assign(targets=[ast.Name(id=name, ctx=ast.Store())], value=st.value), st))
                out.append(ast.copy_location(ast.Return(value=ast.Name(id=name, ctx=ast.Load())), st))
            else:
                out.append(st)
        return out


class ExplainCondition(ast.NodeTransformer):
    """if <test>: ...  ->  cond_tmp = <test>; if cond_tmp: ...   (for `a and b` / `a or b` only the first operand moves, so
    short-circuit evaluation is kept; an `elif` becomes `else:` + the two statements)"""

    def __init__(self):
        self.n = 0

    def visit_FunctionDef(self, node):
        self.generic_visit(node)
        node.body = self._rewrite(node.body)
        return node

    def _rewrite(self, stmts):
        out = []
        for st in stmts:
            for fld in ("body", "orelse", "finalbody"):
                if hasattr(st, fld) and isinstance(getattr(st, fld), list) and not isinstance(st, (ast.FunctionDef, ast.ClassDef)):
                    setattr(st, fld, self._rewrite(getattr(st, fld)))
            if isinstance(st, ast.Try):
                for h in st.handlers:
                    h.body = self._rewrite(h.body)
            if isinstance(st, ast.If) and not any(isinstance(n, (ast.Yield, ast.YieldFrom, ast.NamedExpr, ast.Await)) for n in ast.walk(st.test)) \
                    and not isinstance(st.test, (ast.Name, ast.Constant)):
                self.n += 1
                name = f"cond_tmp{self.n}"
                if isinstance(st.test, ast.BoolOp):
                    moved = st.test.values[0]
                    st.test.values[0] = ast.copy_location(ast.Name(id=name, ctx=ast.Load()), moved)
                else:
                    moved = st.test
                    st.test = ast.copy_location(ast.Name(id=name, ctx=ast.Load()), moved)
                out.append(ast.copy_location(ast.Assign(targets=[ast.Name(id=name, ctx=ast.Store())], value=moved), st))
            out.append(st)
        return out


class IfExpToIf(ast.NodeTransformer):
    """x = a if c else b  ->  if c: x = a else: x = b ;   return a if c else b  ->  if c: return a else: return b
    (single-target assignments and returns/yield statements whose value is a conditional expression)"""

    def visit_FunctionDef(self, node):
        self.generic_visit(node)
        node.body = self._rewrite(node.body)
        return node

    def _rewrite(self, stmts):
        out = []
        for st in stmts:
            for fld in ("body", "orelse", "finalbody"):
                if hasattr(st, fld) and isinstance(getattr(st, fld), list) and not isinstance(st, (ast.FunctionDef, ast.ClassDef)):
                    setattr(st, fld, self._rewrite(getattr(st, fld)))
            if isinstance(st, ast.Try):
                for h in st.handlers:
                    h.body = self._rewrite(h.body)
            v = getattr(st, "value", None)
            if isinstance(st, ast.Assign) and len(st.targets) == 1 and isinstance(v, ast.IfExp):
                a = ast.copy_location(ast.Assign(targets=st.targets, value=v.body), st)
                b = ast.copy_location(ast.Assign(targets=st.targets, value=v.orelse), st)
                out.append(ast.copy_location(ast.If(test=v.test, body=[a], orelse=[b]), st))
            elif isinstance(st, ast.Return) and isinstance(v, ast.IfExp):
                out.append(ast.copy_location(ast.If(test=v.test, body=[ast.copy_location(ast.Return(value=v.body), st)],
                                                    orelse=[ast.copy_location(ast.Return(value=v.orelse), st)]), st))
            elif isinstance(st, ast.Expr) and isinstance(v, ast.Yield) and isinstance(v.value, ast.IfExp):
                iv = v.value
                out.append(ast.copy_location(ast.If(test=iv.test, body=[ast.copy_location(ast.Expr(value=ast.Yield(value=iv.body)), st)],
                                                    orelse=[ast.copy_location(ast.Expr(value=ast.Yield(value=iv.orelse)), st)]), st))
            else:
                out.append(st)
        return out


class WhileTrueBreak(ast.NodeTransformer):
    """while c: B  ->  while True: if not c: break; B     (loops without an else clause)"""

    def visit_While(self, node):
        self.generic_visit(node)
        if node.orelse or (isinstance(node.test, ast.Constant) and node.test.value is True):
            return node
        guard = ast.If(test=ast.UnaryOp(op=ast.Not(), operand=node.test), body=[ast.Break()], orelse=[])
        return ast.copy_location(ast.While(test=ast.Constant(value=True), body=[guard] + node.body, orelse=[]), node)


class CompToLoop(ast.NodeTransformer):
    """x = [E for v in it]  ->  x = []; for v in it: x.append(E)     (single unfiltered generator, plain name target)"""

    def __init__(self):
        self.n = 0

    def _rewrite(self, stmts):
        out = []
        for st in stmts:
            for fld in ("body", "orelse", "finalbody"):
                if hasattr(st, fld) and isinstance(getattr(st, fld), list) and not isinstance(st, (ast.FunctionDef, ast.ClassDef)):
                    setattr(st, fld, self._rewrite(getattr(st, fld)))
            if isinstance(st, ast.Try):
                for h in st.handlers:
                    h.body = self._rewrite(h.body)
            if isinstance(st, ast.Assign) and len(st.targets) == 1 and isinstance(st.targets[0], ast.Name) \
                    and isinstance(st.value, ast.ListComp) and len(st.value.generators) == 1 and not st.value.generators[0].ifs \
                    and not st.value.generators[0].is_async \
                    and st.targets[0].id not in {n.id for n in ast.walk(st.value) if isinstance(n, ast.Name)}:
                name = st.targets[0].id
                g = st.value.generators[0]
                out.append(ast.copy_location(ast.Assign(targets=[ast.Name(id=name, ctx=ast.Store())], value=ast.List(elts=[], ctx=ast.Load())), st))
                app = ast.Expr(value=ast.Call(func=ast.Attribute(value=ast.Name(id=name, ctx=ast.Load()), attr="append", ctx=ast.Load()),
                                              args=[st.value.elt], keywords=[]))
                out.append(ast.copy_location(ast.For(target=g.target, iter=g.iter, body=[app], orelse=[]), st))
            else:
                out.append(st)
        return out

    def visit_FunctionDef(self, node):
        self.generic_visit(node)
        node.body = self._rewrite(node.body)
        return node


class RenamePrivate(ast.NodeTransformer):
    """consistently rename every private attribute / method / class attribute (single leading underscore) of the package"""

    @staticmethod
    def _priv(name: str) -> bool:
        return name.startswith("_") and not name.startswith("__") and len(name) > 1

    def visit_Attribute(self, node):
        self.generic_visit(node)
        if self._priv(node.attr):
            node.attr = node.attr + "_x"
        return node

    def visit_FunctionDef(self, node):
        self.generic_visit(node)
        if self._priv(node.name) and isinstance(getattr(node, "_in_class", None), bool) and node._in_class:
            node.name = node.name + "_x"
        return node

    def visit_ClassDef(self, node):
        for st in node.body:
            if isinstance(st, (ast.FunctionDef, ast.AsyncFunctionDef)):
                st._in_class = True
            # class-level private attributes:  _delimiter = ","
            tg = st.targets if isinstance(st, ast.Assign) else [st.target] if isinstance(st, ast.AnnAssign) else []
            for t in tg:
                if isinstance(t, ast.Name) and self._priv(t.id):
                    t.id = t.id + "_x"
        self.generic_visit(node)
        return node


class RenamePrivateOpaque(RenamePrivate):
    """as rename-private, but the new names carry no hint of the old ones (`_sortedEnds` -> `_q3f1a`): rules must find
    fields and helpers by what they do, not by a substring of what they are called"""

    @staticmethod
    def _new(name: str) -> str:
        import zlib
        return "_q%05x" % (zlib.crc32(name.encode()) & 0xFFFFF)

    def visit_Attribute(self, node):
        ast.NodeTransformer.generic_visit(self, node)
        if self._priv(node.attr):
            node.attr = self._new(node.attr)
        return node

    def visit_FunctionDef(self, node):
        ast.NodeTransformer.generic_visit(self, node)
        if self._priv(node.name) and isinstance(getattr(node, "_in_class", None), bool) and node._in_class:
            node.name = self._new(node.name)
        return node

    def visit_ClassDef(self, node):
        for st in node.body:
            if isinstance(st, (ast.FunctionDef, ast.AsyncFunctionDef)):
                st._in_class = True
            tg = st.targets if isinstance(st, ast.Assign) else [st.target] if isinstance(st, ast.AnnAssign) else []
            for t in tg:
                if isinstance(t, ast.Name) and self._priv(t.id):
                    t.id = self._new(t.id)
        ast.NodeTransformer.generic_visit(self, node)
        return node


class InsertLogging(ast.NodeTransformer):
    """a logging call at the start of every function and before every return (adds `import logging` to the module)"""

    def visit_Module(self, node):
        self.generic_visit(node)
        i = 1 if node.body and isinstance(node.body[0], ast.Expr) and isinstance(node.body[0].value, ast.Constant) else 0
        node.body.insert(i, ast.Import(names=[ast.alias(name="logging", asname="_vlog")]))
        return node

    @staticmethod
    def _log(msg):
        return ast.Expr(value=ast.Call(func=ast.Attribute(value=ast.Call(func=ast.Attribute(value=ast.Name(id="_vlog", ctx=ast.Load()),
                                                                                             attr="getLogger", ctx=ast.Load()),
                                                                          args=[ast.Constant(value="windpyutils")], keywords=[]),
                                                          attr="debug", ctx=ast.Load()),
                                       args=[ast.Constant(value=msg)], keywords=[]))

    def visit_FunctionDef(self, node):
        self.generic_visit(node)
        i = 1 if node.body and isinstance(node.body[0], ast.Expr) and isinstance(node.body[0].value, ast.Constant) \
            and isinstance(node.body[0].value.value, str) else 0
        node.body.insert(i, self._log(f"enter {node.name}"))
        return node


TRANSFORMS: Dict[str, Callable[[], ast.NodeTransformer]] = {
    "rename-locals": RenameLocals,
    "insert-pass": InsertNoise,
    "aug-to-assign": AugToAssign,
    "flip-compare": FlipCompare,
    "swap-if-else": SwapIfElse,
    "extract-return-temp": ExtractTemp,
    "while-true-break": WhileTrueBreak,
    "comprehension-to-loop": CompToLoop,
    "ifexp-to-if": IfExpToIf,
    "explain-condition": ExplainCondition,
    "rename-private": RenamePrivate,
    "rename-private-opaque": RenamePrivateOpaque,
    "insert-logging": InsertLogging,
}


def variant_overlay(root, name: str) -> Dict[str, str]:
    """overlay (relpath -> source) of the whole package rewritten by transformation ``name``"""
    import pathlib
    root = pathlib.Path(root)
    out = {}
    for p in sorted((root / PKG).rglob("*.py")):
        rel = str(p.relative_to(root))
        tree = ast.parse(p.read_text(encoding="utf-8"))
        tree = TRANSFORMS[name]().visit(tree)
        ast.fix_missing_locations(tree)
        src = ast.unparse(tree)
        compile(src, rel, "exec")  # the variant must still compile
        out[rel] = src
    return out
