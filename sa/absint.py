"""E1 — structured abstract interpreter over finite abstract states (set-of-states semantics).

The engine walks a function body in Python's evaluation order and reports *events* to a client, which
maps (event, state) to successor states.  Control flow is structured: ``if`` forks (optionally refined by
the client), loops iterate to a fixpoint, ``try`` bodies may enter handlers from every intermediate state,
``finally`` runs on every exit, resolvable callees are inlined along the MRO of the concrete class, and a
``for`` over a resolvable repo generator interleaves the generator body with the loop body
(continuation style: every ``yield`` of the generator runs the loop body).

No repo code is executed; values are not tracked (only what the client encodes in its finite state).
"""
from __future__ import annotations

import ast
from typing import Callable, Iterable, List, Optional, Set, Tuple

from .model import Cls, Func, Program
from .resolve import CONSUMERS, WRAPPERS, Scope

BUILTIN_EXC_PARENTS = {
    "KeyError": ("LookupError", "Exception", "BaseException"),
    "IndexError": ("LookupError", "Exception", "BaseException"),
    "ValueError": ("Exception", "BaseException"),
    "TypeError": ("Exception", "BaseException"),
    "RuntimeError": ("Exception", "BaseException"),
    "AttributeError": ("Exception", "BaseException"),
    "StopIteration": ("Exception", "BaseException"),
    "FileNotFoundError": ("OSError", "Exception", "BaseException"),
    "AssertionError": ("Exception", "BaseException"),
    "Empty": ("Exception", "BaseException"),
    "Full": ("Exception", "BaseException"),
}


class Exits:
    __slots__ = ("normal", "brk", "cont", "ret", "exc")

    def __init__(self, normal=(), brk=(), cont=(), ret=(), exc=()):
        self.normal, self.brk, self.cont, self.ret = set(normal), set(brk), set(cont), set(ret)
        self.exc: Set[Tuple[object, Optional[str]]] = set(exc)  # (state, exception type name or None)

    def absorb(self, other: "Exits", normal=False):
        if normal:
            self.normal |= other.normal
        self.brk |= other.brk; self.cont |= other.cont; self.ret |= other.ret; self.exc |= other.exc


class RaiseExc:
    """a client may return ``RaiseExc(state, 'TypeError')`` from ``event``: the event raises (typed) instead of
    continuing; the exception propagates through the handlers of the inlined call chain"""

    __slots__ = ("state", "name")

    def __init__(self, state, name):
        self.state, self.name = state, name


class Ctx:
    """what a client sees with every event"""

    def __init__(self, interp: "Interp", scope: Scope):
        self.interp, self.scope = interp, scope

    @property
    def func(self) -> Func:
        return self.scope.func

    @property
    def chain(self) -> List[str]:
        return [f.short for f, _ in self.interp.stack]

    def where(self, node) -> str:
        return f"{self.scope.func.relpath}:{getattr(node, 'lineno', 0)}"


class Client:
    """default client: no state change, everything resolvable is inlined"""

    max_depth = 8

    def event(self, kind: str, node, state, ctx: Ctx) -> Iterable:
        return (state,)

    def refine(self, test: ast.expr, state, ctx: Ctx):
        return (state,), (state,)

    def classify(self, call: ast.Call, ctx: Ctx) -> Optional[str]:
        """return an event kind to report this call as a leaf event (no inlining), or None"""
        return None

    def should_inline(self, func: Func, call, ctx: Ctx) -> bool:
        return True

    def handler_entry(self, handler: ast.ExceptHandler, trace_states: Set, ctx: Ctx) -> Set:
        """states with which a handler may be entered by *implicit* exceptions of the try body"""
        return trace_states


class FlagTracking(Client):
    """Wraps a client so that boolean / None *flags* held in locals are followed along each path: the state becomes
    (inner state, frozenset of (frame depth, name, constant)); `flag = True`, `flag = None` record a value, any other store to the
    name forgets it, and a test that is the flag itself (`if flag`, `if not flag`, `flag is None`, `flag is not None`) is decided
    instead of being followed both ways.  Used where a refactoring may have turned `while .. else` / `break` structure into a flag."""

    def __init__(self, inner: Client):
        self.inner = inner
        self.max_depth = getattr(inner, "max_depth", 8)

    @staticmethod
    def wrap(states):
        return {(s, frozenset()) for s in states}

    @staticmethod
    def unwrap(ex: "Exits") -> "Exits":
        return Exits({s for s, _ in ex.normal}, {s for s, _ in ex.brk}, {s for s, _ in ex.cont}, {s for s, _ in ex.ret},
                     {(s[0], nm) for s, nm in ex.exc})

    def should_inline(self, func, call, ctx):
        return self.inner.should_inline(func, call, ctx)

    def classify(self, call, ctx):
        return self.inner.classify(call, ctx)

    def handler_entry(self, handler, trace_states, ctx):
        by_inner = {}
        for s, fl in trace_states:
            by_inner.setdefault(s, set()).add(fl)
        keep = self.inner.handler_entry(handler, set(by_inner), ctx)
        return {(s, fl) for s in keep for fl in by_inner.get(s, {frozenset()})}

    def _value(self, e, flags, depth):
        if isinstance(e, ast.Name):
            for d, n, v in flags:
                if d == depth and n == e.id:
                    return ("known", v)
        return None

    def refine(self, test, state, ctx):
        inner, flags = state
        depth = len(ctx.interp.stack)
        known = self._value(test, flags, depth)
        if known is not None:
            return (((inner, flags),), ()) if known[1] else ((), ((inner, flags),))
        if isinstance(test, ast.Compare) and len(test.ops) == 1 and isinstance(test.ops[0], (ast.Is, ast.IsNot, ast.Eq, ast.NotEq)) \
                and isinstance(test.comparators[0], ast.Constant) and test.comparators[0].value in (None, True, False):
            known = self._value(test.left, flags, depth)
            if known is not None:
                same = known[1] is test.comparators[0].value
                res = same if isinstance(test.ops[0], (ast.Is, ast.Eq)) else not same
                return (((inner, flags),), ()) if res else ((), ((inner, flags),))
        t, f = self.inner.refine(test, inner, ctx)
        return tuple((x, flags) for x in t), tuple((x, flags) for x in f)

    def event(self, kind, node, state, ctx):
        inner, flags = state
        if kind == "store" and isinstance(node, ast.Name):
            depth = len(ctx.interp.stack)
            flags = frozenset(x for x in flags if not (x[0] == depth and x[1] == node.id))
            from .util import assigned_value
            v = assigned_value(node)
            if isinstance(v, ast.Constant) and (v.value is None or isinstance(v.value, bool)):
                flags = flags | {(depth, node.id, v.value)}
            elif isinstance(v, ast.Name):
                # keep_sending = <result local of an inlined predicate>: a copy of a tracked flag carries its value
                for d_, n_, c_ in state[1]:
                    if d_ == depth and n_ == v.id:
                        flags = flags | {(depth, node.id, c_)}
        elif kind == "loophead" and isinstance(node, (ast.For, ast.While)):
            # flags assigned inside the loop may have either value at its head on a later round: forget those this round may
            # re-assign differently only when the inner state does not tell the rounds apart (kept simple: keep the values, the
            # engine iterates to a fixpoint over (inner, flags) pairs, which are finitely many)
            pass
        out = []
        for r in self.inner.event(kind, node, inner, ctx):
            if isinstance(r, RaiseExc):
                out.append(RaiseExc((r.state, flags), r.name))
            else:
                out.append((r, flags))
        return out


class Interp:
    def __init__(self, prog: Program, client: Client):
        self.P, self.client = prog, client
        self.stack: List[Tuple[Func, object]] = []
        self.unrecognised: List[str] = []
        self.traces: List[Set] = []
        self.yield_handlers: List[Optional[Callable]] = []
        self.events = 0
        self.states_seen: Set = set()
        self.inlined: Set[str] = set()
        self._pending_exc: Set = set()

    # ------------------------------------------------------------------ entry
    def run(self, func: Func, init_states: Iterable, cls: Optional[Cls] = None) -> Exits:
        scope = Scope(self.P, func, cls)
        self.stack.append((func, None))
        self.yield_handlers.append(None)
        S = self._event("enter", func.node, set(init_states), scope)
        ex = self.block(func.node.body, S, scope)
        self.yield_handlers.pop()
        self.stack.pop()
        return ex

    # ------------------------------------------------------------------ helpers
    def _note(self, S):
        if self.traces and S:
            for t in self.traces:
                t |= S
        self.states_seen |= S

    def _event(self, kind, node, S, scope) -> Set:
        if not S:
            return S
        ctx = Ctx(self, scope)
        out = set()
        for s in S:
            self.events += 1
            for r in self.client.event(kind, node, s, ctx):
                if isinstance(r, RaiseExc):
                    self._pending_exc = self._pending_exc | {(r.state, r.name)}
                else:
                    out.add(r)
        self._note(out)
        return out

    # ------------------------------------------------------------------ expressions
    def expr(self, e, S: Set, sc: Scope) -> Set:
        if e is None or not S:
            return S
        m = getattr(self, "e_" + type(e).__name__, None)
        if m is not None:
            return m(e, S, sc)
        for ch in ast.iter_child_nodes(e):
            if isinstance(ch, ast.expr):
                S = self.expr(ch, S, sc)
            elif isinstance(ch, ast.keyword):
                S = self.expr(ch.value, S, sc)
        return S

    def e_Constant(self, e, S, sc):
        return S

    def e_Name(self, e, S, sc):
        if isinstance(e.ctx, ast.Load):
            return self._event("name", e, S, sc)
        return S

    def e_BoolOp(self, e, S, sc):
        out = set()
        cur = S
        n = len(e.values)
        for i, v in enumerate(e.values):
            cur = self.expr(v, cur, sc)
            if i < n - 1:
                t, f = self._refine(v, cur, sc)
                if isinstance(e.op, ast.And):
                    out |= f; cur = t
                else:
                    out |= t; cur = f
            else:
                out |= cur
        return out

    def e_IfExp(self, e, S, sc):
        S = self.expr(e.test, S, sc)
        t, f = self._refine(e.test, S, sc)
        # clients that track values learn which arm this path takes
        t = self._event("ifexp_true", e, t, sc)
        f = self._event("ifexp_false", e, f, sc)
        return self.expr(e.body, t, sc) | self.expr(e.orelse, f, sc)

    def e_Lambda(self, e, S, sc):
        return S

    def e_NamedExpr(self, e, S, sc):
        S = self.expr(e.value, S, sc)
        return self._event("store", e.target, S, sc)

    def _comp(self, gens, elts, S, sc):
        g = gens[0]
        S = self._iter_expr(g.iter, S, sc)
        S = self._event("loophead", g, S, sc)
        seen, work, out = set(), set(S), set(S)
        while work - seen:
            cur = work - seen
            seen |= cur
            cur = self._event("store", g.target, cur, sc)
            for c in g.ifs:
                cur = self.expr(c, cur, sc)
                t, f = self._refine(c, cur, sc)
                out |= f
                cur = t
            if len(gens) > 1:
                cur = self._comp(gens[1:], elts, cur, sc)
            else:
                for el in elts:
                    cur = self.expr(el, cur, sc)
                cur = self._event("comp_elt", elts[0], cur, sc)
            out |= cur
            work = cur
        return out

    def e_ListComp(self, e, S, sc):
        return self._comp(e.generators, [e.elt], S, sc)

    e_SetComp = e_ListComp

    def e_GeneratorExp(self, e, S, sc):
        # a generator expression is evaluated where it is consumed; when it is only *created* here
        # (returned / stored) the client is told so and the body is not run
        p = getattr(e, "_parent", None)
        consumed = isinstance(p, ast.Call) and isinstance(p.func, (ast.Name, ast.Attribute)) and (
            (isinstance(p.func, ast.Name) and p.func.id in CONSUMERS | {"next"}) or
            (isinstance(p.func, ast.Attribute) and p.func.attr in ("join", "extend", "update")))
        if consumed or not isinstance(p, (ast.Return, ast.Assign)):
            return self._comp(e.generators, [e.elt], S, sc)
        S = self._iter_expr(e.generators[0].iter, S, sc, lazy=True)
        return self._event("lazy_genexp", e, S, sc)

    def e_DictComp(self, e, S, sc):
        return self._comp(e.generators, [e.key, e.value], S, sc)

    def e_Yield(self, e, S, sc):
        S = self.expr(e.value, S, sc)
        return self._do_yield(e, S, sc)

    def _do_yield(self, node, S, sc):
        h = self.yield_handlers[-1] if self.yield_handlers else None
        if h is None:
            return self._event("yield", node, S, sc)
        # run the consumer's loop body in the consumer's context
        self.yield_handlers.append(h.outer_handler)
        saved = self.stack
        self.stack = h.stack
        try:
            out = h(S)
        finally:
            self.stack = saved
            self.yield_handlers.pop()
        return out

    def e_YieldFrom(self, e, S, sc):
        tgt = self._gen_target(e.value, sc)
        if tgt is not None:
            func, cls, obj, call = tgt
            S = self._eval_call_parts(call, S, sc) if call is not None else self.expr(e.value, S, sc)
            # delegate: the callee's yields are this generator's yields
            ex = self._run_callee(func, cls, obj, call, S, sc, keep_yield_handler=True)
            return ex
        S = self.expr(e.value, S, sc)
        seen, work = set(), set(S)
        while work - seen:
            cur = work - seen
            seen |= cur
            work = self._do_yield(e, cur, sc)
        return seen | work

    def e_Attribute(self, e, S, sc):
        S = self.expr(e.value, S, sc)
        if isinstance(e.ctx, ast.Load):
            # property on a typed receiver
            t = sc.type_of(e.value)
            if isinstance(t, Cls):
                f = self.P.resolve(t, e.attr)
                if f is not None and f.is_property and not f.is_abstract and not f.cls.is_external:
                    path = sc.receiver_path(e.value)
                    if self.client.should_inline(f, e, Ctx(self, sc)):
                        return self._run_callee(f, t, path or ("?",), None, S, sc)
            return self._event("load", e, S, sc)
        return S

    def e_Subscript(self, e, S, sc):
        S = self.expr(e.value, S, sc)
        S = self.expr(e.slice, S, sc)
        if isinstance(e.ctx, ast.Load):
            t = sc.type_of(e.value)
            if isinstance(t, Cls):
                f = self.P.resolve(t, "__getitem__")
                if f is not None and not f.is_abstract and self.client.should_inline(f, e, Ctx(self, sc)):
                    S = self._event("proto_call", e, S, sc)
                    return self._run_callee(f, t, sc.receiver_path(e.value) or ("?",), None, S, sc)
            return self._event("subscript", e, S, sc)
        return S

    def e_Compare(self, e, S, sc):
        S = self.expr(e.left, S, sc)
        for op, c in zip(e.ops, e.comparators):
            S = self.expr(c, S, sc)
            if isinstance(op, (ast.In, ast.NotIn)):
                t = sc.type_of(c)
                if isinstance(t, Cls):
                    f = self.P.resolve(t, "__contains__")
                    if f is not None and not f.is_abstract and self.client.should_inline(f, e, Ctx(self, sc)):
                        S = self._run_callee(f, t, sc.receiver_path(c) or ("?",), None, S, sc)
        return self._event("compare", e, S, sc)

    def _eval_call_parts(self, e: ast.Call, S, sc):
        if isinstance(e.func, ast.Attribute):
            S = self.expr(e.func.value, S, sc)
        elif not isinstance(e.func, ast.Name):
            S = self.expr(e.func, S, sc)
        for a in e.args:
            S = self.expr(a.value if isinstance(a, ast.Starred) else a, S, sc)
        for k in e.keywords:
            S = self.expr(k.value, S, sc)
        return S

    def _bound_alias(self, e: ast.Call, sc):
        """self.<x>(...) where <x> is assigned exactly once, in the constructor, a bound method `self.<y>.<m>`: the call is
        `self.<y>.<m>(...)`.  (Re-assignments of <y> that leave the alias behind are the business of the derived-state rule.)"""
        f = e.func
        if not (isinstance(f, ast.Attribute) and sc.is_self(f.value) and sc.cls is not None):
            return None
        cache = getattr(self, "_alias_cache", None)
        if cache is None:
            cache = self._alias_cache = {}
        key = (sc.cls.qual, f.attr)
        if key not in cache:
            found, n_stores = None, 0
            for k in sc.cls.repo_mro():
                if k.is_external:
                    continue
                for m in k.methods.values():
                    if m.self_name is None:
                        continue
                    for n in ast.walk(m.node):
                        if isinstance(n, ast.Attribute) and isinstance(n.ctx, ast.Store) and n.attr == f.attr \
                                and isinstance(n.value, ast.Name) and n.value.id == m.self_name:
                            n_stores += 1
                            st = getattr(n, "_parent", None)
                            v = getattr(st, "value", None)
                            if m.name == "__init__" and isinstance(st, ast.Assign) and len(st.targets) == 1 and isinstance(v, ast.Attribute) \
                                    and isinstance(v.value, ast.Attribute) and isinstance(v.value.value, ast.Name) \
                                    and v.value.value.id == m.self_name:
                                found = (v.value.attr, v.attr)
            cache[key] = found if n_stores == 1 else None
        hit = cache[key]
        if hit is None or sc.cls.methods.get(f.attr) is not None:
            return None
        new = ast.Call(func=ast.Attribute(value=ast.Attribute(value=f.value, attr=hit[0], ctx=ast.Load()), attr=hit[1], ctx=ast.Load()),
                       args=e.args, keywords=e.keywords)
        ast.copy_location(new, e)
        ast.copy_location(new.func, e.func)
        ast.copy_location(new.func.value, e.func)
        new._parent = getattr(e, "_parent", None)
        new.func._parent = new
        new.func.value._parent = new.func
        return new

    def e_Call(self, e: ast.Call, S, sc):
        alias = self._bound_alias(e, sc)
        if alias is not None:
            e = alias
        ctx = Ctx(self, sc)
        # consuming builtins over a generator call / typed iterable: list(gen()), "".join(gen())
        fname = e.func.id if isinstance(e.func, ast.Name) else None
        if fname in CONSUMERS | {"len", "iter", "next", "reversed"} and len(e.args) >= 1:
            inner = e.args[0]
            if fname == "len":
                t = sc.type_of(inner)
                if isinstance(t, Cls):
                    f = self.P.resolve(t, "__len__")
                    if f is not None and not f.is_abstract and self.client.should_inline(f, e, ctx):
                        S = self.expr(inner, S, sc)
                        return self._run_callee(f, t, sc.receiver_path(inner) or ("?",), None, S, sc)
            elif fname in CONSUMERS:
                tgt = self._gen_target(inner, sc)
                if tgt is not None:
                    func, cls, obj, call = tgt
                    S = self._eval_call_parts(call, S, sc) if call is not None else self.expr(inner, S, sc)
                    for a in e.args[1:]:
                        S = self.expr(a, S, sc)
                    for k in e.keywords:
                        S = self.expr(k.value, S, sc)
                    out = self._consume_generator(func, cls, obj, call, S, sc, lambda X: X)
                    return self._event("call", e, out, sc)
        S = self._eval_call_parts(e, S, sc)
        kind = self.client.classify(e, ctx)
        if kind is not None:
            return self._event(kind, e, S, sc)
        tgt = sc.resolve_call(e)
        if isinstance(tgt, Func) and not tgt.is_abstract:
            if tgt.is_generator:
                return self._event("lazy_gen", e, S, sc)  # creating a generator runs nothing
            if self.client.should_inline(tgt, e, ctx):
                cls, obj = self._callee_binding(e, tgt, sc)
                return self._run_callee(tgt, cls, obj, e, S, sc)
        if isinstance(tgt, Cls):
            S = self._event("construct", e, S, sc)
            init = self.P.resolve(tgt, "__init__")
            if init is not None and not init.cls.is_external and not init.is_abstract \
                    and self.client.should_inline(init, e, ctx):
                S = self._run_callee(init, tgt, ("new",), e, S, sc)
            return S
        return self._event("call", e, S, sc)

    def _callee_binding(self, call: Optional[ast.Call], tgt: Func, sc: Scope):
        """(concrete class, object path) the callee runs on"""
        if call is not None and isinstance(call.func, ast.Attribute):
            v = call.func.value
            if isinstance(v, ast.Call) and isinstance(v.func, ast.Name) and v.func.id == "super":
                return sc.cls, sc.obj
            if sc.is_self(v):
                return sc.cls, sc.obj
            t = sc.type_of(v)
            if isinstance(t, Cls) and tgt.cls is not None and (tgt.cls in (t.mro or []) or tgt.cls is t):
                return t, sc.receiver_path(v) or ("?",)
            if isinstance(v, ast.Name) and tgt.cls is not None and sc.cls is not None and tgt.cls in (sc.cls.mro or []):
                return sc.cls, sc.obj  # Base.m(self, ...)
        return (tgt.cls, ("?",)) if tgt.cls is not None else (None, sc.obj)

    def _run_callee(self, func: Func, cls, obj, call, S, sc: Scope, keep_yield_handler=False, yield_handler=None):
        if not S:
            return S
        if any(f is func for f, _ in self.stack) or len(self.stack) >= self.client.max_depth:
            self.unrecognised.append(f"recursion/depth at {func.short} via {[f.short for f, _ in self.stack]}")
            return S
        ptypes = {}
        if call is not None:
            params = func.params[1:] if func.self_name is not None and not _is_explicit_self_call(call, sc) else func.params
            if func.self_name is not None and _is_explicit_self_call(call, sc):
                params = func.params
            for p, a in zip(params, call.args):
                if not isinstance(a, ast.Starred):
                    ptypes[p] = sc.type_of(a)
            for k in call.keywords:
                if k.arg:
                    ptypes[k.arg] = sc.type_of(k.value)
        outer = sc if func.outer is not None and _lexically_inside(func, sc) else None
        nsc = Scope(self.P, func, cls, obj if obj is not None else ("?",), ptypes, outer)
        self.stack = self.stack + [(func, call)]
        self.inlined.add(func.qual)
        if not keep_yield_handler:
            self.yield_handlers.append(yield_handler)
        saved_pending = self._pending_exc
        self._pending_exc = set()
        try:
            S = self._event("enter", func.node, S, nsc)
            ex = self.block(func.node.body, S, nsc)
        finally:
            self.stack = self.stack[:-1]
            if not keep_yield_handler:
                self.yield_handlers.pop()
            self._pending_exc = saved_pending
        out = self._event("leave", func.node, ex.normal | ex.ret, nsc)
        if ex.exc:
            self._pending_exc = self._pending_exc | ex.exc
        return out

    # ------------------------------------------------------------------ generators
    def _gen_target(self, e: ast.expr, sc: Scope):
        """(generator Func, cls, obj, call) when iterating ``e`` runs a repo generator function"""
        inner = e
        while isinstance(inner, ast.Call) and isinstance(inner.func, ast.Name) and inner.func.id in ("enumerate", "iter") \
                and inner.args:
            inner = inner.args[0]
        if isinstance(inner, ast.Call):
            tgt = sc.resolve_call(inner)
            if isinstance(tgt, Func) and tgt.is_generator and not tgt.is_abstract:
                cls, obj = self._callee_binding(inner, tgt, sc)
                return tgt, cls, obj, inner
            # a call returning a typed object which is then iterated: buffer(i, x) -> Buffer
            t = sc.type_of(inner)
            if isinstance(t, Cls):
                f = self.P.resolve(t, "__iter__")
                if f is not None and f.is_generator and not f.is_abstract:
                    return f, t, ("?",), None
            return None
        t = sc.type_of(inner)
        if isinstance(t, Cls):
            f = self.P.resolve(t, "__iter__")
            if f is not None and not f.is_abstract and (f.is_generator or not f.cls.is_external):
                return f, t, sc.receiver_path(inner) or ("?",), None
        return None

    def _consume_generator(self, func, cls, obj, call, S, sc, body: Callable):
        """run generator ``func``; every yield runs ``body`` (states -> states); returns exhausted states"""
        h = _Handler(body, list(self.stack), self.yield_handlers[-1] if self.yield_handlers else None)
        if not func.is_generator:
            # __iter__ returning an iterator object: run it for its events, then iterate opaquely
            S = self._run_callee(func, cls, obj, call, S, sc)
            seen, work = set(), set(S)
            while work - seen:
                cur = work - seen
                seen |= cur
                work = body(cur)
            return seen | work
        return self._run_callee(func, cls, obj, call, S, sc, yield_handler=h)

    def _iter_expr(self, it: ast.expr, S, sc, lazy=False):
        """evaluate the iterable expression of a loop/comprehension (arguments only; iteration itself is the loop)"""
        tgt = self._gen_target(it, sc)
        if tgt is not None and tgt[3] is not None:
            return self._eval_call_parts(tgt[3], S, sc)
        return self.expr(it, S, sc)

    # ------------------------------------------------------------------ statements
    def block(self, stmts, S, sc) -> Exits:
        out = Exits(normal=S)
        for st in stmts:
            if not out.normal:
                break
            self._note(out.normal)
            ex = self.stmt(st, out.normal, sc)
            out.normal = ex.normal
            out.absorb(ex)
        return out

    def stmt(self, st, S, sc) -> Exits:
        S = self._event("stmt", st, S, sc)
        saved = self._pending_exc
        self._pending_exc = set()
        try:
            m = getattr(self, "s_" + type(st).__name__, None)
            if m is not None:
                ex = m(st, S, sc)
            else:
                self.unrecognised.append(f"statement kind {type(st).__name__} at {sc.func.relpath}:{st.lineno}")
                ex = Exits(normal=S)
            # exceptions escaping from callees inlined inside this statement's expressions
            ex.exc |= self._pending_exc
        finally:
            self._pending_exc = saved
        return ex

    def _with_pending(self, ex: Exits) -> Exits:
        return ex

    def s_Expr(self, st, S, sc):
        return self._with_pending(Exits(normal=self.expr(st.value, S, sc)))

    def _store(self, t, S, sc):
        if isinstance(t, (ast.Tuple, ast.List)):
            for el in t.elts:
                S = self._store(el.value if isinstance(el, ast.Starred) else el, S, sc)
            return S
        if isinstance(t, ast.Attribute):
            S = self.expr(t.value, S, sc)
        elif isinstance(t, ast.Subscript):
            S = self.expr(t.value, S, sc)
            S = self.expr(t.slice, S, sc)
            ty = sc.type_of(t.value)
            if isinstance(ty, Cls):
                f = self.P.resolve(ty, "__setitem__")
                if f is not None and not f.is_abstract and self.client.should_inline(f, t, Ctx(self, sc)):
                    S = self._event("store", t, S, sc)
                    return self._run_callee(f, ty, sc.receiver_path(t.value) or ("?",), None, S, sc)
        return self._event("store", t, S, sc)

    def s_Assign(self, st, S, sc):
        S = self.expr(st.value, S, sc)
        for t in st.targets:
            S = self._store(t, S, sc)
        return self._with_pending(Exits(normal=S))

    def s_AnnAssign(self, st, S, sc):
        if st.value is None:
            return Exits(normal=S)
        S = self.expr(st.value, S, sc)
        return self._with_pending(Exits(normal=self._store(st.target, S, sc)))

    def s_AugAssign(self, st, S, sc):
        t = st.target
        if isinstance(t, ast.Attribute):
            S = self.expr(t.value, S, sc)
        elif isinstance(t, ast.Subscript):
            S = self.expr(t.value, S, sc)
            S = self.expr(t.slice, S, sc)
        S = self.expr(st.value, S, sc)
        return self._with_pending(Exits(normal=self._event("aug", st, S, sc)))

    def s_Delete(self, st, S, sc):
        for t in st.targets:
            if isinstance(t, ast.Attribute):
                S = self.expr(t.value, S, sc)
            elif isinstance(t, ast.Subscript):
                S = self.expr(t.value, S, sc)
                S = self.expr(t.slice, S, sc)
                ty = sc.type_of(t.value)
                if isinstance(ty, Cls):
                    f = self.P.resolve(ty, "__delitem__")
                    if f is not None and not f.is_abstract and self.client.should_inline(f, t, Ctx(self, sc)):
                        S = self._run_callee(f, ty, sc.receiver_path(t.value) or ("?",), None, S, sc)
                        continue
            S = self._event("del", t, S, sc)
        return self._with_pending(Exits(normal=S))

    def s_Return(self, st, S, sc):
        S = self.expr(st.value, S, sc)
        S = self._event("return", st, S, sc)
        return self._with_pending(Exits(ret=S))

    def s_Raise(self, st, S, sc):
        S = self.expr(st.exc, S, sc)
        S = self._event("raise", st, S, sc)
        name = None
        if st.exc is not None:
            x = st.exc.func if isinstance(st.exc, ast.Call) else st.exc
            name = ast.unparse(x).split(".")[-1]
        ex = Exits(exc={(s, name) for s in S})
        return self._with_pending(ex)

    def s_Assert(self, st, S, sc):
        S = self.expr(st.test, S, sc)
        t, f = self._refine(st.test, S, sc)
        return self._with_pending(Exits(normal=t, exc={(s, "AssertionError") for s in f}))

    def s_Break(self, st, S, sc):
        return Exits(brk=S)

    def s_Continue(self, st, S, sc):
        return Exits(cont=S)

    def s_Pass(self, st, S, sc):
        return Exits(normal=S)

    def s_FunctionDef(self, st, S, sc):
        return Exits(normal=S)

    s_ClassDef = s_FunctionDef
    s_Import = s_Pass
    s_ImportFrom = s_Pass
    s_Global = s_Pass
    s_Nonlocal = s_Pass

    def _refine(self, test, S, sc):
        # boolean structure is handled here, clients refine atoms
        if isinstance(test, ast.BoolOp):
            if isinstance(test.op, ast.And):
                T, F = set(S), set()
                for v in test.values:
                    t, f = self._refine(v, T, sc)
                    F |= f
                    T = t
                return T, F
            T, F = set(), set(S)
            for v in test.values:
                t, f = self._refine(v, F, sc)
                T |= t
                F = f
            return T, F
        if isinstance(test, ast.UnaryOp) and isinstance(test.op, ast.Not):
            t, f = self._refine(test.operand, S, sc)
            return f, t
        ctx = Ctx(self, sc)
        T, F = set(), set()
        for s in S:
            t, f = self.client.refine(test, s, ctx)
            T.update(t); F.update(f)
        return T, F

    def s_If(self, st, S, sc):
        S = self.expr(st.test, S, sc)
        T, F = self._refine(st.test, S, sc)
        a = self.block(st.body, T, sc)
        b = self.block(st.orelse, F, sc)
        ex = Exits(a.normal | b.normal)
        ex.absorb(a); ex.absorb(b)
        return ex

    def _loop(self, head: Callable, body, orelse, S, sc, node) -> Exits:
        out = Exits()
        seen, exits = set(), set()
        work = set(S)
        rounds = 0
        while work - seen:
            rounds += 1
            if rounds > 200:
                self.unrecognised.append(f"loop at {sc.func.relpath}:{getattr(node, 'lineno', 0)} does not reach a fixpoint "
                                         f"(unbounded abstract state)")
                break
            cur = work - seen
            seen |= cur
            cur = self._event("loophead", node, cur, sc)
            T, F = head(cur)
            exits |= F
            ex = self.block(body, T, sc)
            out.brk |= ex.brk; out.ret |= ex.ret; out.exc |= ex.exc
            work = ex.normal | ex.cont
        el = self.block(orelse, exits, sc)
        res = Exits(el.normal | out.brk, el.brk, el.cont, out.ret | el.ret, out.exc | el.exc)
        return res

    def s_While(self, st, S, sc):
        const_true = isinstance(st.test, ast.Constant) and bool(st.test.value) is True

        def head(X):
            X = self.expr(st.test, X, sc)
            if const_true:
                return X, set()
            return self._refine(st.test, X, sc)

        ex = self._loop(head, st.body, st.orelse, S, sc, st)
        return self._with_pending(ex)

    def s_For(self, st, S, sc):
        tgt = self._gen_target(st.iter, sc)
        if tgt is not None and self.client.should_inline(tgt[0], st, Ctx(self, sc)):
            func, cls, obj, call = tgt
            S = self._eval_call_parts(call, S, sc) if call is not None else self.expr(st.iter, S, sc)
            acc = Exits()

            def body(Sy):
                Sy = self._event("loophead", st, Sy, sc)
                Sy = self._store(st.target, Sy, sc)
                ex = self.block(st.body, Sy, sc)
                acc.brk |= ex.brk; acc.ret |= ex.ret; acc.exc |= ex.exc
                return ex.normal | ex.cont

            exhausted = self._consume_generator(func, cls, obj, call, S, sc, body)
            el = self.block(st.orelse, exhausted, sc)
            res = Exits(el.normal | acc.brk, el.brk, el.cont, acc.ret | el.ret, acc.exc | el.exc)
            return self._with_pending(res)
        S = self.expr(st.iter, S, sc)
        S = self._event("iter", st.iter, S, sc)

        def head(X):
            return self._store(st.target, X, sc), X

        return self._with_pending(self._loop(head, st.body, st.orelse, S, sc, st))

    def s_With(self, st, S, sc):
        exits_to_run = []
        # an exception raised after __enter__ leaves through __exit__: intermediate states reach enclosing
        # handlers only after the exit events (e.g. the lock is released)
        saved_traces = self.traces
        inner: Set = set()
        try:
            for it in st.items:
                S = self.expr(it.context_expr, S, sc)
                t = sc.type_of(it.context_expr)
                self.traces = [inner]
                S = self._event("with_enter", it, S, sc)
                if isinstance(t, Cls):
                    f = self.P.resolve(t, "__enter__")
                    if f is not None and self.client.should_inline(f, it, Ctx(self, sc)):
                        S = self._run_callee(f, t, ("with",), None, S, sc)
                if it.optional_vars is not None:
                    S = self._store(it.optional_vars, S, sc)
                exits_to_run.append((it, t))
            body = self.block(st.body, S, sc)
        finally:
            self.traces = saved_traces
        if saved_traces and inner:
            self._note(self._with_exit(exits_to_run, inner, sc))
        res = Exits()
        for name in ("normal", "brk", "cont", "ret"):
            cur = getattr(body, name)
            if cur:
                setattr(res, name, self._with_exit(exits_to_run, cur, sc))
        if body.exc:
            by_state = self._with_exit(exits_to_run, {s for s, _ in body.exc}, sc)
            res.exc |= {(s, None) for s in by_state}
        return self._with_pending(res)

    def _with_exit(self, items, S, sc):
        for it, t in reversed(items):
            if isinstance(t, Cls):
                f = self.P.resolve(t, "__exit__")
                if f is not None and self.client.should_inline(f, it, Ctx(self, sc)):
                    S = self._run_callee(f, t, ("with",), None, S, sc)
            S = self._event("with_exit", it, S, sc)
        return S

    def s_Try(self, st, S, sc):
        trace: Set = set(S)
        self.traces.append(trace)
        try:
            body = self.block(st.body, S, sc)
        finally:
            self.traces.pop()
        res = Exits(set(), body.brk, body.cont, body.ret, set())
        normal = body.normal
        if st.orelse:
            el = self.block(st.orelse, body.normal, sc)
            normal = el.normal
            res.absorb(el)
        res.normal = set(normal)
        ctx = Ctx(self, sc)
        explicit = body.exc
        unhandled = set()
        for (s, name) in explicit:
            caught = False
            for h in st.handlers:
                if _handler_matches(h, name):
                    caught = True
                    break
            if not caught:
                unhandled.add((s, name))
        for h in st.handlers:
            h_in = set(self.client.handler_entry(h, set(trace), ctx))
            h_in |= {s for (s, name) in explicit if _handler_matches(h, name) and _first_match(st.handlers, name) is h}
            if not h_in:
                continue
            h_in = self._event("handler", h, h_in, sc)
            ex = self.block(h.body, h_in, sc)
            res.absorb(ex, normal=True)
        res.exc |= unhandled
        if st.finalbody:
            out = Exits()
            for name in ("normal", "brk", "cont", "ret"):
                cur = getattr(res, name)
                if cur:
                    ex = self.block(st.finalbody, cur, sc)
                    getattr(out, name).update(ex.normal)
                    out.brk |= ex.brk; out.cont |= ex.cont; out.ret |= ex.ret; out.exc |= ex.exc
            # exceptional exit (explicit or implicit from any intermediate state)
            imp = {s for s, _ in res.exc} | (set(trace) if not _catches_all(st.handlers) else set())
            if imp:
                ex = self.block(st.finalbody, imp, sc)
                out.exc |= {(s, None) for s in ex.normal}
                out.ret |= ex.ret; out.exc |= ex.exc
            res = out
        return self._with_pending(res)

    s_TryStar = s_Try


class _Handler:
    def __init__(self, body, stack, outer_handler):
        self.body, self.stack, self.outer_handler = body, stack, outer_handler

    def __call__(self, S):
        return self.body(S)


def _handler_names(h: ast.ExceptHandler) -> Optional[List[str]]:
    if h.type is None:
        return None
    ts = h.type.elts if isinstance(h.type, ast.Tuple) else [h.type]
    return [ast.unparse(t).split(".")[-1] for t in ts]


def _handler_matches(h: ast.ExceptHandler, name: Optional[str]) -> bool:
    names = _handler_names(h)
    if names is None or name is None:
        return True
    if name in names:
        return True
    return any(p in names for p in BUILTIN_EXC_PARENTS.get(name, ("Exception", "BaseException")))


def _first_match(handlers, name):
    for h in handlers:
        if _handler_matches(h, name):
            return h
    return None


def _catches_all(handlers) -> bool:
    for h in handlers:
        n = _handler_names(h)
        if n is None or "BaseException" in n:
            return True
    return False


def _is_explicit_self_call(call: ast.Call, sc: Scope) -> bool:
    """Base.method(self, ...) style"""
    f = call.func
    return isinstance(f, ast.Attribute) and isinstance(f.value, ast.Name) and not sc.is_self(f.value) \
        and sc.type_of(f.value) is None and bool(call.args) and sc.is_self(call.args[0])


def _lexically_inside(func: Func, sc: Scope) -> bool:
    s: Optional[Scope] = sc
    while s is not None:
        if func.outer is s.func:
            return True
        s = s.outer
    return False
