"""E7 / E8 — ordering abstraction and propositional abstraction of loop-free formulas taken from the AST.

E7: a boolean combination of comparisons over k names is evaluated on *every weak ordering* of the names
(ordered set partitions: k=2 -> 3, k=3 -> 13, k=4 -> 75).  For any totally ordered value type the truth of
such a formula depends only on the weak ordering of its operands, so the enumeration is a finite, complete
abstraction of "all values".  E8: formulas over named boolean atoms are compared by truth table.

Only formulas *extracted from the source* are evaluated, by the small interpreter below; no repository code runs.
"""
from __future__ import annotations

import ast
import itertools
from typing import Callable, Dict, List, Optional, Sequence


class NotAFormula(Exception):
    pass


def weak_orderings(names: Sequence[str]) -> List[Dict[str, int]]:
    n = len(names)
    seen = set()
    for ranks in itertools.product(range(n), repeat=n):
        used = sorted(set(ranks))
        if used == list(range(len(used))):
            seen.add(ranks)
    return [dict(zip(names, r)) for r in sorted(seen)]


def _cmp(op, a, b) -> bool:
    if isinstance(op, ast.Lt): return a < b
    if isinstance(op, ast.LtE): return a <= b
    if isinstance(op, ast.Gt): return a > b
    if isinstance(op, ast.GtE): return a >= b
    if isinstance(op, ast.Eq): return a == b
    if isinstance(op, ast.NotEq): return a != b
    raise NotAFormula(f"comparison operator {type(op).__name__}")


def eval_order(e: ast.expr, env: Dict[str, int], term: Optional[Callable[[ast.expr], Optional[int]]] = None) -> bool:
    """evaluate a comparison formula under a rank assignment; ``term`` maps non-Name operands to ranks"""

    def val(x):
        if isinstance(x, ast.Name) and x.id in env:
            return env[x.id]
        if term is not None:
            v = term(x)
            if v is not None:
                return v
        if isinstance(x, ast.Call) and isinstance(x.func, ast.Name) and x.func.id in ("min", "max") and not x.keywords:
            vs = [val(a) for a in x.args]
            return min(vs) if x.func.id == "min" else max(vs)
        raise NotAFormula(f"operand {ast.unparse(x)}")

    if isinstance(e, ast.BoolOp):
        vals = [eval_order(v, env, term) for v in e.values]
        return all(vals) if isinstance(e.op, ast.And) else any(vals)
    if isinstance(e, ast.UnaryOp) and isinstance(e.op, ast.Not):
        return not eval_order(e.operand, env, term)
    if isinstance(e, ast.Compare):
        left = val(e.left)
        for op, c in zip(e.ops, e.comparators):
            r = val(c)
            if not _cmp(op, left, r):
                return False
            left = r
        return True
    if isinstance(e, ast.Constant) and isinstance(e.value, bool):
        return e.value
    if isinstance(e, ast.IfExp):
        return eval_order(e.body, env, term) if eval_order(e.test, env, term) else eval_order(e.orelse, env, term)
    raise NotAFormula(f"expression {ast.unparse(e)}")


def eval_prop(e: ast.expr, atom: Callable[[ast.expr], Optional[bool]]) -> bool:
    """evaluate a propositional formula; ``atom`` maps atomic sub-expressions to truth values (None = not an atom)"""
    a = atom(e)
    if a is not None:
        return a
    if isinstance(e, ast.BoolOp):
        vals = [eval_prop(v, atom) for v in e.values]
        return all(vals) if isinstance(e.op, ast.And) else any(vals)
    if isinstance(e, ast.UnaryOp) and isinstance(e.op, ast.Not):
        return not eval_prop(e.operand, atom)
    if isinstance(e, ast.BinOp) and isinstance(e.op, (ast.BitXor, ast.BitAnd, ast.BitOr)):
        l, r = eval_prop(e.left, atom), eval_prop(e.right, atom)
        return (l != r) if isinstance(e.op, ast.BitXor) else (l and r) if isinstance(e.op, ast.BitAnd) else (l or r)
    if isinstance(e, ast.Compare) and len(e.ops) == 1 and isinstance(e.ops[0], (ast.Eq, ast.NotEq, ast.Is, ast.IsNot)):
        l, r = eval_prop(e.left, atom), eval_prop(e.comparators[0], atom)
        return (l == r) if isinstance(e.ops[0], (ast.Eq, ast.Is)) else (l != r)
    if isinstance(e, ast.Constant) and isinstance(e.value, bool):
        return e.value
    if isinstance(e, ast.IfExp):
        return eval_prop(e.body, atom) if eval_prop(e.test, atom) else eval_prop(e.orelse, atom)
    raise NotAFormula(f"expression {ast.unparse(e)}")
