"""E3 — intra-procedural value flow: reaching definitions over the structured AST (may-analysis).

``ReachingDefs(func_node)`` computes, for every ``Name`` load in the function, the set of definitions that
may reach it.  A definition is a ``Def``: kind in {param, assign, unpack, for, with, except, aug, import,
comp} plus the defining expression (and the tuple index for unpacking).  Loops are iterated to a fixpoint,
``try`` bodies may jump to their handlers from any statement boundary.
"""
from __future__ import annotations

import ast
from typing import Dict, FrozenSet, List, Optional, Set, Tuple


class Def:
    __slots__ = ("name", "kind", "value", "index", "node")

    def __init__(self, name, kind, value=None, index=None, node=None):
        self.name, self.kind, self.value, self.index, self.node = name, kind, value, index, node

    def __repr__(self):
        v = ast.unparse(self.value) if isinstance(self.value, ast.AST) else self.value
        return f"Def({self.name},{self.kind},{v}{'' if self.index is None else '[%s]' % (self.index,)})"


Env = Dict[str, FrozenSet[Def]]


def _merge(a: Env, b: Env) -> Env:
    out = dict(a)
    for k, v in b.items():
        out[k] = out.get(k, frozenset()) | v
    return out


class ReachingDefs:
    def __init__(self, fn: ast.AST):
        self.fn = fn
        self.uses: Dict[ast.Name, FrozenSet[Def]] = {}
        self.defs: List[Def] = []
        self._cache: Dict[tuple, Def] = {}
        env: Env = {}
        a = fn.args
        for arg in a.posonlyargs + a.args + a.kwonlyargs + ([a.vararg] if a.vararg else []) + ([a.kwarg] if a.kwarg else []):
            d = self._mk(arg.arg, "param", None, None, arg)
            env[arg.arg] = frozenset([d])
        self._exits: List[Env] = []
        out = self._block(fn.body, env)
        self.exit_env = out

    # ---- expressions: record uses
    def _use(self, e, env: Env):
        if e is None:
            return
        for n in self._walk_expr(e):
            if isinstance(n, ast.Name) and isinstance(n.ctx, ast.Load):
                prev = self.uses.get(n, frozenset())
                self.uses[n] = prev | env.get(n.id, frozenset())

    def _walk_expr(self, e):
        # comprehensions bind their own variables: handle by a local env extension
        stack = [e]
        while stack:
            n = stack.pop()
            if isinstance(n, (ast.ListComp, ast.SetComp, ast.GeneratorExp, ast.DictComp)):
                yield from self._comp(n)
                continue
            if isinstance(n, ast.Lambda):
                continue
            yield n
            stack.extend(ast.iter_child_nodes(n))

    def _comp(self, n):
        # the comprehension variables are recorded as defs of kind 'comp'; uses inside resolve to them
        self._pending_comp = getattr(self, "_pending_comp", [])
        self._pending_comp.append(n)
        return iter(())

    def _flush_comps(self, env: Env):
        pend = getattr(self, "_pending_comp", [])
        self._pending_comp = []
        for c in pend:
            local = dict(env)
            for g in c.generators:
                self._use_env(g.iter, local)
                self._bind(g.target, "comp", g.iter, local, g)
                for cond in g.ifs:
                    self._use_env(cond, local)
            elts = [c.key, c.value] if isinstance(c, ast.DictComp) else [c.elt]
            for el in elts:
                self._use_env(el, local)

    def _use_env(self, e, env):
        self._use(e, env)
        self._flush_comps(env)

    # ---- binding
    def _mk(self, name, kind, value, index, node) -> Def:
        """one Def object per definition site (loops are re-walked until a fixpoint)"""
        key = (id(node), name, index, kind)
        d = self._cache.get(key)
        if d is None:
            d = Def(name, kind, value, index, node)
            self._cache[key] = d
            self.defs.append(d)
        return d

    def _bind(self, target, kind, value, env: Env, node, index=None):
        if isinstance(target, ast.Name):
            d = self._mk(target.id, kind, value, index, node)
            env[target.id] = frozenset([d])
        elif isinstance(target, (ast.Tuple, ast.List)):
            for i, el in enumerate(target.elts):
                if isinstance(el, ast.Starred):
                    self._bind(el.value, "unpack" if kind in ("assign", "unpack") else kind, value, env, node, (index or ()) + ("*",))
                else:
                    self._bind(el, "unpack" if kind in ("assign", "unpack") else kind, value, env, node,
                               (index or ()) + (i,))
        else:
            self._use_env(target, env)  # attribute / subscript store: its sub-expressions are uses

    # ---- statements
    def _block(self, stmts, env: Env) -> Env:
        env = dict(env)
        for st in stmts:
            env = self._stmt(st, env)
            if self._try_stack:
                for acc in self._try_stack:
                    acc.append(dict(env))
        return env

    _try_stack: List[List[Env]] = []

    def _stmt(self, st, env: Env) -> Env:
        if isinstance(st, ast.Assign):
            self._use_env(st.value, env)
            for t in st.targets:
                self._bind(t, "assign", st.value, env, st)
            return env
        if isinstance(st, ast.AnnAssign):
            if st.value is not None:
                self._use_env(st.value, env)
                self._bind(st.target, "assign", st.value, env, st)
            return env
        if isinstance(st, ast.AugAssign):
            self._use_env(st.value, env)
            if isinstance(st.target, ast.Name):
                fake = ast.Name(id=st.target.id, ctx=ast.Load())
                ast.copy_location(fake, st.target)
                self.uses[fake] = env.get(st.target.id, frozenset())
                d = self._mk(st.target.id, "aug", st, None, st)
                env[st.target.id] = frozenset([d])
            else:
                self._use_env(st.target, env)
            return env
        if isinstance(st, (ast.Expr, ast.Return, ast.Raise, ast.Assert, ast.Delete)):
            for ch in ast.iter_child_nodes(st):
                if isinstance(ch, ast.expr):
                    self._use_env(ch, env)
            if isinstance(st, ast.Return):
                self._exits.append(dict(env))
            return env
        if isinstance(st, ast.If):
            self._use_env(st.test, env)
            a = self._block(st.body, env)
            b = self._block(st.orelse, env)
            if _terminates(st.body):
                return b if not _terminates(st.orelse) else b
            if _terminates(st.orelse):
                return a
            return _merge(a, b)
        if isinstance(st, (ast.For, ast.AsyncFor)):
            self._use_env(st.iter, env)
            cur = dict(env)
            for _ in range(6):
                body_in = dict(cur)
                self._bind(st.target, "for", st.iter, body_in, st)
                out = self._block(st.body, body_in)
                new = _merge(cur, out)
                if new == cur:
                    break
                cur = new
            return self._block(st.orelse, cur) if st.orelse else cur
        if isinstance(st, ast.While):
            cur = dict(env)
            for _ in range(6):
                self._use_env(st.test, cur)
                out = self._block(st.body, cur)
                new = _merge(cur, out)
                if new == cur:
                    break
                cur = new
            self._use_env(st.test, cur)
            return self._block(st.orelse, cur) if st.orelse else cur
        if isinstance(st, (ast.With, ast.AsyncWith)):
            for it in st.items:
                self._use_env(it.context_expr, env)
                if it.optional_vars is not None:
                    self._bind(it.optional_vars, "with", it.context_expr, env, st)
            return self._block(st.body, env)
        if isinstance(st, (ast.Try,)) or type(st).__name__ == "TryStar":
            acc: List[Env] = [dict(env)]
            self._try_stack = self._try_stack + [acc]
            body_out = self._block(st.body, env)
            self._try_stack = self._try_stack[:-1]
            h_in: Env = {}
            for e in acc:
                h_in = _merge(h_in, e)
            outs = []
            normal = self._block(st.orelse, body_out) if st.orelse else body_out
            if not _terminates(st.body + st.orelse):
                outs.append(normal)
            for h in st.handlers:
                he = dict(h_in)
                if h.name:
                    d = self._mk(h.name, "except", h.type, None, h)
                    he[h.name] = frozenset([d])
                ho = self._block(h.body, he)
                if not _terminates(h.body):
                    outs.append(ho)
            res: Env = {}
            for o in outs:
                res = _merge(res, o)
            if not outs:
                res = normal
            if st.finalbody:
                res = self._block(st.finalbody, _merge(res, h_in))
            return res
        if isinstance(st, (ast.FunctionDef, ast.AsyncFunctionDef, ast.ClassDef)):
            d = self._mk(st.name, "def", st, None, st)
            env[st.name] = frozenset([d])
            return env
        if isinstance(st, (ast.Import, ast.ImportFrom)):
            for a in st.names:
                nm = (a.asname or a.name).split(".")[0]
                env[nm] = frozenset([self._mk(nm, "import", st, None, st)])
            return env
        return env


def _terminates(stmts) -> bool:
    if not stmts:
        return False
    last = stmts[-1]
    if isinstance(last, (ast.Return, ast.Raise, ast.Continue, ast.Break)):
        return True
    if isinstance(last, ast.If):
        return _terminates(last.body) and _terminates(last.orelse)
    return False


class Flow:
    """convenience layer: origins of expressions"""

    def __init__(self, fn_node):
        self.fn = fn_node
        self.rd = ReachingDefs(fn_node)

    def defs_of(self, name_node: ast.Name) -> FrozenSet[Def]:
        return self.rd.uses.get(name_node, frozenset())

    def single_def(self, name_node: ast.Name) -> Optional[Def]:
        ds = self.defs_of(name_node)
        return next(iter(ds)) if len(ds) == 1 else None

    def expand(self, e: ast.expr, depth: int = 6) -> ast.expr:
        """replace local names that have exactly one reaching plain assignment by their defining expression"""
        if depth <= 0:
            return e
        if isinstance(e, ast.Name) and isinstance(e.ctx, ast.Load):
            d = self.single_def(e)
            if d is not None and d.kind == "assign" and isinstance(d.value, ast.expr):
                return self.expand(d.value, depth - 1)
            # a, b = x, y : the element of a literal right-hand side at the target's position
            if d is not None and d.kind == "unpack" and isinstance(d.value, (ast.Tuple, ast.List)) and d.index is not None \
                    and len(d.index) == 1 and isinstance(d.index[0], int) and d.index[0] < len(d.value.elts) \
                    and not any(isinstance(x, ast.Starred) for x in d.value.elts):
                return self.expand(d.value.elts[d.index[0]], depth - 1)
            return e
        return e

    def origin_is_param(self, e: ast.expr, param: str) -> bool:
        """every reaching definition of ``e`` (a Name) is the parameter ``param`` or a copy of it"""
        seen = set()

        def go(x, depth=8) -> bool:
            if depth <= 0 or not isinstance(x, ast.Name):
                return False
            ds = self.defs_of(x)
            if not ds:
                return False
            for d in ds:
                if d in seen:
                    continue
                seen.add(d)
                if d.kind == "param":
                    if d.name != param:
                        return False
                elif d.kind == "assign" and isinstance(d.value, ast.Name):
                    if not go(d.value, depth - 1):
                        return False
                else:
                    return False
            return True

        return go(e)


def names_in(e: ast.AST) -> Set[str]:
    return {n.id for n in ast.walk(e) if isinstance(n, ast.Name)}
