"""Inlined view of a method: calls of private helpers of the same class are replaced by the helper's body.

"Extract method" is the commonest refactoring; the path rules (E1) follow calls anyway, but the rules that look at the
*statements* of one function (which statement follows which, what is appended under which test) would lose their anchor when
a run of statements moves into a helper.  Those rules therefore look at ``inline_view(prog, cls, f)``: a copy of ``f`` in which

  * a statement ``self._h(a, b)`` / ``Cls._h(a, b)`` is replaced by the body of ``_h`` when ``_h`` has no ``return <value>``
    (a trailing bare return is dropped),
  * ``x = self._h(a)`` / ``return self._h(a)`` / ``x += self._h(a)`` are replaced by the body of ``_h`` followed by the same
    statement over the returned expression, when the only ``return`` of ``_h`` is its last statement,
  * a call of a helper whose body is the single statement ``return <expr>`` is replaced by that expression wherever it occurs,
  * a method whose whole body is ``return self._h(<its own parameters>)`` is replaced by the body of ``_h`` (tail delegation),

for helpers that are concrete methods (or static methods) of the class or its repository bases, whose name starts with a single
underscore, that are not generators, not recursive, not abstract and not overridden in a subclass of the defining class
(a call of those is a dynamic dispatch point, e.g. the reader roles of the line files).  Parameters are substituted when the
argument is a name, an attribute chain or a constant and the helper does not assign the parameter; otherwise the parameter
becomes a fresh local.  The helper's locals are renamed apart.  Line numbers of the inlined statements are the helper's own,
so reports still point at real source lines.  Nothing is executed.
"""
from __future__ import annotations

import ast
import copy
from typing import Dict, List, Optional, Set

from .model import Cls, Func, Program, set_parents

MAX_DEPTH = 3


def _dc(node):
    """structural copy of a subtree: fields and positions only (parent links, and the shared expression-context singletons that
    carry one, would drag other modules along with copy.deepcopy)"""
    if isinstance(node, list):
        return [_dc(x) for x in node]
    if not isinstance(node, ast.AST):
        return node
    if isinstance(node, (ast.expr_context, ast.operator, ast.unaryop, ast.boolop, ast.cmpop)):
        return node
    new = type(node)()
    for name in node._fields:
        if hasattr(node, name):
            setattr(new, name, _dc(getattr(node, name)))
    for name in node._attributes:
        if hasattr(node, name):
            setattr(new, name, getattr(node, name))
    return new


def _is_private(name: str) -> bool:
    return name.startswith("_") and not name.startswith("__")


def _overridden_below(prog: Program, owner: Cls, name: str) -> bool:
    for c in prog.classes.values():
        if c is owner or c.is_external:
            continue
        if owner in (c.mro or []) and name in c.methods:
            return True
    return False


def _helper_for(prog: Program, cls: Optional[Cls], caller: Func, call: ast.Call, allow_gen: bool = False) -> Optional[Func]:
    f = call.func
    if isinstance(f, ast.Name) and _is_private(f.id):
        # a private function of the caller's module (not shadowed by a local / parameter of the caller)
        h = prog.functions.get(f"{caller.mod.name}.{f.id}")
        if h is None or h.cls is not None or h is caller or h.is_generator or h.nested:
            return None
        if f.id in caller.params or any(isinstance(n, ast.Name) and n.id == f.id and isinstance(n.ctx, ast.Store) for n in ast.walk(caller.node)):
            return None
        if any(isinstance(a, ast.Starred) for a in call.args) or any(k.arg is None for k in call.keywords):
            return None
        if any(isinstance(n, (ast.Global, ast.Nonlocal, ast.Yield, ast.YieldFrom, ast.Await)) for n in ast.walk(h.node)):
            return None
        return h
    if cls is None:
        return None
    if not isinstance(f, ast.Attribute) or not _is_private(f.attr):
        return None
    base = f.value
    via_self = isinstance(base, ast.Name) and caller.self_name is not None and base.id == caller.self_name
    via_cls = isinstance(base, ast.Name) and base.id in {k.name for k in (cls.mro or [cls]) if isinstance(k, Cls)}
    if not (via_self or via_cls):
        return None
    h = prog.resolve(cls, f.attr)
    if h is None or h.cls is None or h.cls.is_external or h.is_abstract or (h.is_generator and not allow_gen) or h.is_property:
        return None
    if h is caller or h.nested:
        return None
    if h.is_classmethod:
        # only cls._h(...) from a class method: there the receiver *is* the class object the helper runs on; through an instance
        # or the class name the helper's cls would be type(self) / a fixed class, which a textual substitution cannot express
        if not (via_self and caller.is_classmethod):
            return None
    elif via_cls and not h.is_static:
        return None
    if _overridden_below(prog, h.cls, h.name):
        return None
    if any(isinstance(a, ast.Starred) for a in call.args) or any(k.arg is None for k in call.keywords):
        return None
    banned = (ast.Global, ast.Nonlocal, ast.Await) if allow_gen else (ast.Global, ast.Nonlocal, ast.Yield, ast.YieldFrom, ast.Await)
    if any(isinstance(n, banned) for n in ast.walk(h.node)):
        return None
    return h


def _body_wo_doc(fn: ast.FunctionDef) -> List[ast.stmt]:
    b = list(fn.body)
    if b and isinstance(b[0], ast.Expr) and isinstance(b[0].value, ast.Constant) and isinstance(b[0].value.value, str):
        b = b[1:]
    return b


def _returns(stmts: List[ast.stmt]) -> List[ast.Return]:
    out = []
    for st in stmts:
        for n in ast.walk(st):
            if isinstance(n, ast.Return):
                out.append(n)
            if isinstance(n, (ast.FunctionDef, ast.AsyncFunctionDef, ast.Lambda)) and n is not st:
                pass
    return out


def _falls_through(stmts: List[ast.stmt]) -> bool:
    """control can reach the end of the block"""
    if not stmts:
        return True
    last = stmts[-1]
    if isinstance(last, (ast.Return, ast.Raise, ast.Continue, ast.Break)):
        return False
    if isinstance(last, ast.If):
        return _falls_through(last.body) or _falls_through(last.orelse)
    if isinstance(last, ast.With):
        return _falls_through(last.body)
    return True


def _has_return(stmts: List[ast.stmt]) -> bool:
    for st in stmts:
        for n in ast.walk(st):
            if isinstance(n, ast.Return):
                return True
    return False


class _NoFit(Exception):
    pass


def _returns_to_breaks(body: List[ast.stmt]) -> Optional[List[ast.stmt]]:
    """a helper called for its effects whose last statement is a loop and whose only returns are bare `return`s directly inside
    that loop (not in a nested loop or function): every such return leaves the loop and thereby the helper, i.e. it is a `break`
    (the loop has no else arm).  Returns the rewritten body, or None when the helper is not of that form."""
    if not body or not isinstance(body[-1], (ast.While, ast.For)) or body[-1].orelse:
        return None
    loop = body[-1]
    if any(_has_return([st]) for st in body[:-1]):
        return None
    ok = True

    def go(stmts, in_inner_loop):
        nonlocal ok
        out = []
        for st in stmts:
            if isinstance(st, ast.Return):
                if st.value is not None and not (isinstance(st.value, ast.Constant) and st.value.value is None) or in_inner_loop:
                    ok = False
                out.append(ast.copy_location(ast.Break(), st))
                continue
            if isinstance(st, (ast.FunctionDef, ast.AsyncFunctionDef, ast.ClassDef)):
                out.append(st)
                continue
            inner = in_inner_loop or isinstance(st, (ast.For, ast.While))
            for fld in ("body", "orelse", "finalbody"):
                v = getattr(st, fld, None)
                if isinstance(v, list) and v and isinstance(v[0], ast.stmt):
                    setattr(st, fld, go(v, inner))
            if isinstance(st, ast.Try):
                for h in st.handlers:
                    h.body = go(h.body, inner)
            out.append(st)
        return out
    loop.body = go(loop.body, False)
    return body if ok else None


def _elim_returns(stmts: List[ast.stmt], result) -> List[ast.stmt]:
    """the block with every `return v` replaced by ``result(v, at)`` (a list of statements) and the statements a return would
    have skipped moved into the else arms; returns inside loops / try are not handled (raises _NoFit).  The value of a helper
    with several returns then arrives in one variable on every path, and the block has no return left."""
    out: List[ast.stmt] = []
    for i, st in enumerate(stmts):
        rest = stmts[i + 1:]
        if isinstance(st, ast.Return):
            out.extend(result(st.value, st))
            return out                                          # what follows is unreachable
        if not _has_return([st]):
            out.append(st)
            continue
        if isinstance(st, ast.If):
            b_ft, o_ft = _falls_through(st.body), _falls_through(st.orelse)
            b_r, o_r = _has_return(st.body), _has_return(st.orelse)
            if (b_ft and b_r) or (o_ft and o_r):
                # a branch that returns on some of its paths only: the rest of the block belongs to both branches
                st.body = _elim_returns(st.body + _dc(rest), result) if b_ft else _elim_returns(st.body, result)
                st.orelse = _elim_returns(st.orelse + _dc(rest), result) if o_ft else _elim_returns(st.orelse, result)
                out.append(st)
                return out
            if b_r and not b_ft and not o_r:
                st.body = _elim_returns(st.body, result)
                st.orelse = _elim_returns(st.orelse + rest, result) if o_ft else st.orelse
                out.append(st)
                if o_ft:
                    return out
                continue
            if o_r and not o_ft and not b_r:
                st.orelse = _elim_returns(st.orelse, result)
                st.body = _elim_returns(st.body + rest, result) if b_ft else st.body
                out.append(st)
                if b_ft:
                    return out
                continue
            st.body = _elim_returns(st.body, result)
            st.orelse = _elim_returns(st.orelse, result)
            out.append(st)
            if not b_ft and not o_ft:
                return out
            continue
        if isinstance(st, ast.With) and not _falls_through(st.body):
            st.body = _elim_returns(st.body, result)
            out.append(st)
            return out
        if isinstance(st, (ast.While, ast.For)) and not st.orelse and not _loop_level(st.body, ast.Break):
            # returns inside a loop that has no break of its own: `return v` becomes `<result v>; break`, and what follows the loop
            # (it runs only when no return happened) becomes the loop's else clause
            st.body = _loop_returns_to_breaks(st.body, result)
            tail = _elim_returns(rest, result) if rest else []
            st.orelse = tail
            out.append(st)
            return out
        raise _NoFit()
    return out


def _loop_level(stmts, kind) -> bool:
    """does the block contain a statement of ``kind`` that belongs to *this* loop (not to a nested loop / function)?"""
    for st in stmts:
        if isinstance(st, kind):
            return True
        if isinstance(st, (ast.While, ast.For, ast.FunctionDef, ast.AsyncFunctionDef, ast.ClassDef)):
            if isinstance(st, (ast.While, ast.For)) and _loop_level(st.orelse, kind):
                return True
            continue
        for fld in ("body", "orelse", "finalbody"):
            v = getattr(st, fld, None)
            if isinstance(v, list) and v and isinstance(v[0], ast.stmt) and _loop_level(v, kind):
                return True
        if isinstance(st, ast.Try) and any(_loop_level(h.body, kind) for h in st.handlers):
            return True
    return False


def _loop_returns_to_breaks(stmts, result):
    out = []
    for st in stmts:
        if isinstance(st, ast.Return):
            out.extend(result(st.value, st))
            out.append(ast.copy_location(ast.Break(), st))
            return out
        if not _has_return([st]):
            out.append(st)
            continue
        if isinstance(st, ast.If):
            st.body = _loop_returns_to_breaks(st.body, result)
            st.orelse = _loop_returns_to_breaks(st.orelse, result)
            out.append(st)
            continue
        if isinstance(st, ast.With):
            st.body = _loop_returns_to_breaks(st.body, result)
            out.append(st)
            continue
        raise _NoFit()          # a return inside a nested loop / try: not rewritten
    return out


class _Subst(ast.NodeTransformer):
    def __init__(self, mapping: Dict[str, ast.expr], rename: Dict[str, str]):
        self.mapping, self.rename = mapping, rename

    def visit_Name(self, n: ast.Name):
        if n.id in self.mapping and isinstance(n.ctx, ast.Load):
            return ast.copy_location(_dc(self.mapping[n.id]), n)
        if n.id in self.rename:
            return ast.copy_location(ast.Name(id=self.rename[n.id], ctx=n.ctx), n)
        return n


def _bind(h: Func, call: ast.Call, tag: str):
    """(prefix statements, mapping, rename) for the helper's parameters and locals, or None when the call does not fit"""
    a = h.node.args
    params = [x.arg for x in a.posonlyargs + a.args]
    if h.cls is not None and not h.is_static and params:
        self_p, params = params[0], params[1:]
    else:
        self_p = None
    if a.vararg or a.kwarg or a.kwonlyargs:
        return None
    defaults = dict(zip(params[len(params) - len(a.defaults):], a.defaults)) if a.defaults else {}
    given: Dict[str, ast.expr] = {}
    if len(call.args) > len(params):
        return None
    for p, v in zip(params, call.args):
        given[p] = v
    for k in call.keywords:
        if k.arg not in params or k.arg in given:
            return None
        given[k.arg] = k.value
    for p in params:
        if p not in given:
            if p in defaults:
                given[p] = defaults[p]
            else:
                return None
    assigned = {n.id for n in ast.walk(h.node) if isinstance(n, ast.Name) and isinstance(n.ctx, (ast.Store, ast.Del))}
    for n in ast.walk(h.node):
        if isinstance(n, ast.arg):
            pass
    mapping: Dict[str, ast.expr] = {}
    rename: Dict[str, str] = {}
    prefix: List[ast.stmt] = []
    if self_p is not None:
        mapping[self_p] = call.func.value  # type: ignore[union-attr]
    for p in params:
        v = given[p]
        simple = isinstance(v, (ast.Name, ast.Constant)) or (isinstance(v, ast.Attribute) and _simple_chain(v))
        if simple and p not in assigned:
            mapping[p] = v
        else:
            fresh = f"{p}__{tag}"
            rename[p] = fresh
            prefix.append(ast.copy_location(ast.Assign(targets=[ast.Name(id=fresh, ctx=ast.Store())], value=_dc(v)), call))
    for loc in assigned:
        if loc not in rename and loc not in params:
            rename[loc] = f"{loc}__{tag}"
    return prefix, mapping, rename


def _simple_chain(e) -> bool:
    while isinstance(e, ast.Attribute):
        e = e.value
    return isinstance(e, ast.Name)


class _Inliner:
    def __init__(self, prog: Program, cls: Cls, root: Func):
        self.P, self.cls, self.root = prog, cls, root
        self.n = 0
        self.inlined: List[str] = []

    def _tag(self, h: Func) -> str:
        self.n += 1
        return f"{h.name.strip('_')}{self.n}"

    def body_of(self, h: Func, call: ast.Call, stack: Set[str], depth: int, mode: str = "single"):
        """(prefix, statements, return expression or None) of the helper instantiated for ``call``; None if it does not fit"""
        if h.qual in stack or depth > MAX_DEPTH:
            return None
        b = _bind(h, call, self._tag(h))
        if b is None:
            return None
        prefix, mapping, rename = b
        body = [_dc(st) for st in _body_wo_doc(h.node)]
        rets = _returns(body)
        ret_expr = None
        if rets:
            last = body[-1] if body else None
            if len(rets) == 1 and last is rets[0]:
                body = body[:-1]
                ret_expr = last.value
            elif mode == "splice":
                # `return self._h(..)`: the helper's returns are the caller's
                if any(isinstance(n, (ast.FunctionDef, ast.AsyncFunctionDef, ast.Lambda)) and _has_return([n])
                       for st_ in body for n in ast.walk(st_)):
                    return None
                if _falls_through(body):
                    body = body + [ast.copy_location(ast.Return(value=ast.Constant(value=None)), call)]
            elif mode == "stmt" and _returns_to_breaks([_dc(x) for x in body]) is not None:
                body = _returns_to_breaks(body)
            elif mode in ("value", "stmt"):
                if any(isinstance(n, (ast.FunctionDef, ast.AsyncFunctionDef, ast.Lambda)) and _has_return([n])
                       for st_ in body for n in ast.walk(st_)):
                    return None
                res_name = f"{h.name.strip('_')}_result{self.n}"

                def result(v, at, _rn=res_name):
                    if mode == "stmt":
                        return [] if v is None or isinstance(v, (ast.Constant, ast.Name)) else [ast.copy_location(ast.Expr(value=v), at)]
                    val = v if v is not None else ast.copy_location(ast.Constant(value=None), at)
                    return [ast.copy_location(ast.Assign(targets=[ast.Name(id=_rn, ctx=ast.Store())], value=val), at)]
                try:
                    ft = _falls_through(body)
                    body = _elim_returns(body + ([ast.copy_location(ast.Return(value=None), call)] if ft else []), result)
                except _NoFit:
                    return None
                if mode == "value":
                    ret_expr = ast.copy_location(ast.Name(id=res_name, ctx=ast.Load()), call)
            else:
                return None
        if not rets and mode == "splice" and _falls_through(body):
            body = body + [ast.copy_location(ast.Return(value=ast.Constant(value=None)), call)]
        sub = _Subst(mapping, rename)
        body = [sub.visit(st) for st in body]
        if ret_expr is not None:
            ret_expr = sub.visit(ret_expr)
        # helpers called by the helper
        body = self.block(body, h, stack | {h.qual}, depth + 1)
        self.inlined.append(h.name)
        return prefix, body, ret_expr

    def block(self, stmts: List[ast.stmt], owner: Func, stack: Set[str], depth: int) -> List[ast.stmt]:
        out: List[ast.stmt] = []
        for st in stmts:
            for fld in ("body", "orelse", "finalbody"):
                v = getattr(st, fld, None)
                if isinstance(v, list) and v and isinstance(v[0], ast.stmt) and not isinstance(st, (ast.FunctionDef, ast.AsyncFunctionDef, ast.ClassDef)):
                    setattr(st, fld, self.block(v, owner, stack, depth))
            if isinstance(st, ast.Try):
                for hd in st.handlers:
                    hd.body = self.block(hd.body, owner, stack, depth)
            # `yield from self._gen(...)` as a statement: the generator helper's body runs in place (its return value unused)
            if isinstance(st, ast.Expr) and isinstance(st.value, ast.YieldFrom) and isinstance(st.value.value, ast.Call):
                hg = _helper_for(self.P, self.cls, owner, st.value.value, allow_gen=True)
                if hg is not None and hg.is_generator and hg.qual not in stack and depth <= MAX_DEPTH \
                        and not any(isinstance(r_, ast.Return) and r_.value is not None for r_ in ast.walk(hg.node)):
                    b_ = _bind(hg, st.value.value, self._tag(hg))
                    if b_ is not None:
                        prefix_, mapping_, rename_ = b_
                        sub_ = _Subst(mapping_, rename_)
                        body_ = [sub_.visit(_dc(x)) for x in _body_wo_doc(hg.node)]
                        # a bare `return` inside a generator ends it: only allowed as the last statement
                        if not any(isinstance(r_, ast.Return) for x in body_[:-1] for r_ in ast.walk(x)):
                            if body_ and isinstance(body_[-1], ast.Return):
                                body_ = body_[:-1]
                            body_ = self.block(body_, hg, stack | {hg.qual}, depth + 1)
                            self.inlined.append(hg.name)
                            out.extend(prefix_ + body_)
                            continue
            call = None
            kind = None
            if isinstance(st, ast.Expr) and isinstance(st.value, ast.Call):
                call, kind = st.value, "stmt"
            elif isinstance(st, (ast.Assign, ast.AugAssign, ast.Return, ast.AnnAssign)) and isinstance(getattr(st, "value", None), ast.Call):
                call, kind = st.value, "value"
            if call is not None:
                h = _helper_for(self.P, self.cls, owner, call)
                if h is not None and isinstance(st, ast.Return):
                    r = self.body_of(h, call, stack, depth, mode="splice")
                    if r is not None and r[2] is None:
                        out.extend(self.block(r[0], owner, stack, depth + 1) + r[1])
                        continue
                    r = None if r is None or r[2] is None else r
                    if r is not None:
                        st.value = r[2]
                        out.extend(self.block(r[0], owner, stack, depth + 1) + r[1] + [st])
                        continue
                elif h is not None:
                    r = self.body_of(h, call, stack, depth, mode="stmt" if kind == "stmt" else "value")
                    if r is not None:
                        prefix, body, ret_expr = r
                        prefix = self.block(prefix, owner, stack, depth + 1)      # an argument may itself be a helper call
                        if kind == "stmt" and ret_expr is None:
                            out.extend(prefix + body)
                            continue
                        if kind == "stmt" and ret_expr is not None:
                            out.extend(prefix + body + [ast.copy_location(ast.Expr(value=ret_expr), st)])
                            continue
                        if kind == "value" and ret_expr is not None:
                            st.value = ret_expr
                            out.extend(prefix + body + [st])
                            continue
            # helpers that are a single `return <expr>` are inlined as expressions wherever they are called
            st = _ExprInline(self, owner, stack, depth).visit(st)
            # a helper call that is the first thing the statement evaluates (`<helper>(..).m(..)`, `x = <helper>(..)[i]`,
            # `if <helper>(..) is None:`): the helper runs first, its result takes its place
            slot = None
            if isinstance(st, (ast.Expr, ast.Assign, ast.Return, ast.AnnAssign)) and getattr(st, "value", None) is not None:
                slot = _first_evaluated_call(st, "value")
            elif isinstance(st, ast.If):
                slot = _first_evaluated_call(st, "test")
            if slot is not None:
                holder, fld, idx, inner = slot
                h = _helper_for(self.P, self.cls, owner, inner)
                if h is not None:
                    r = self.body_of(h, inner, stack, depth, mode="value")
                    if r is not None and r[2] is not None:
                        prefix, body, ret_expr = r
                        prefix = self.block(prefix, owner, stack, depth + 1)
                        if isinstance(ret_expr, ast.Name) or (isinstance(ret_expr, ast.Attribute) and _simple_chain(ret_expr)
                                                              and not body and not prefix):
                            repl, bind = ret_expr, []
                        else:
                            tmp = f"{h.name.strip('_')}_result{self.n}x"
                            bind = [ast.copy_location(ast.Assign(targets=[ast.Name(id=tmp, ctx=ast.Store())], value=ret_expr), st)]
                            repl = ast.copy_location(ast.Name(id=tmp, ctx=ast.Load()), inner)
                        if idx is None:
                            setattr(holder, fld, repl)
                        else:
                            getattr(holder, fld)[idx] = repl
                        # the statement may still hold further helper calls
                        out.extend(prefix + body + bind + self.block([st], owner, stack, depth + 1))
                        continue
            out.append(st)
        return out


def _first_evaluated_call(st, field):
    """(holder, field, index, call) of the call expression that the statement evaluates before anything else, if that is a
    call: the descent follows receivers, subscripted values, left operands, first operands"""
    holder, fld, idx = st, field, None
    e = getattr(st, field)
    found = None
    while True:
        if isinstance(e, ast.Call):
            found = (holder, fld, idx, e)
            if isinstance(e.func, ast.Attribute):
                holder, fld, idx, e = e.func, "value", None, e.func.value
                continue
            break
        if isinstance(e, (ast.Attribute, ast.Subscript, ast.Starred)):
            holder, fld, idx, e = e, "value", None, e.value
        elif isinstance(e, ast.UnaryOp):
            holder, fld, idx, e = e, "operand", None, e.operand
        elif isinstance(e, ast.BoolOp):
            holder, fld, idx, e = e, "values", 0, e.values[0]
        elif isinstance(e, ast.Compare):
            holder, fld, idx, e = e, "left", None, e.left
        elif isinstance(e, ast.BinOp):
            holder, fld, idx, e = e, "left", None, e.left
        else:
            break
    return found


def _guard_returns_as_expr(body):
    """the value of a helper whose body is a run of `if <c>: return <E>` guards (one return each, no else) closed by `return <E>`,
    as one conditional expression with the same evaluation order; None for any other body"""
    if not body or not isinstance(body[-1], ast.Return) or body[-1].value is None or len(body) > 4:
        return None
    ex = _dc(body[-1].value)
    for st in reversed(body[:-1]):
        if not (isinstance(st, ast.If) and not st.orelse and len(st.body) == 1 and isinstance(st.body[0], ast.Return)
                and st.body[0].value is not None):
            return None
        rv = st.body[0].value
        if isinstance(rv, ast.Constant) and isinstance(rv.value, bool) and _is_boolean(ex):
            # a boolean predicate: `if c: return False; return E` is `not c and E`, `if c: return True; return E` is `c or E`
            if rv.value:
                ex = ast.copy_location(ast.BoolOp(op=ast.Or(), values=[_dc(st.test), ex]), st)
            else:
                ex = ast.copy_location(ast.BoolOp(op=ast.And(), values=[ast.UnaryOp(op=ast.Not(), operand=_dc(st.test)), ex]), st)
        else:
            ex = ast.copy_location(ast.IfExp(test=_dc(st.test), body=_dc(rv), orelse=ex), st)
    return ex


def _is_boolean(e) -> bool:
    if isinstance(e, ast.Compare):
        return True
    if isinstance(e, ast.Constant):
        return isinstance(e.value, bool)
    if isinstance(e, ast.UnaryOp) and isinstance(e.op, ast.Not):
        return True
    if isinstance(e, ast.BoolOp):
        return all(_is_boolean(v) for v in e.values)
    if isinstance(e, ast.Call) and isinstance(e.func, ast.Name) and e.func.id in ("isinstance", "bool", "callable", "hasattr", "any", "all"):
        return True
    return False


class _ExprInline(ast.NodeTransformer):
    def __init__(self, inl: _Inliner, owner: Func, stack, depth):
        self.inl, self.owner, self.stack, self.depth = inl, owner, stack, depth

    def visit_FunctionDef(self, n):
        return n

    visit_AsyncFunctionDef = visit_FunctionDef
    visit_Lambda = visit_FunctionDef

    def visit_Attribute(self, n: ast.Attribute):
        # a read of a property that is one `return <expression over self>` (`self.stop_requested`, `send_thread.paused`) reads as
        # that expression: the receiver is `self` of the class at hand, or a local whose class the resolver knows
        self.generic_visit(n)
        if not isinstance(n.ctx, ast.Load) or not isinstance(n.value, ast.Name) or self.depth > MAX_DEPTH:
            return n
        P = self.inl.P
        k = None
        if self.inl.cls is not None and n.value.id == self.owner.self_name:
            k = self.inl.cls
        else:
            try:
                from .resolve import Scope
                sc = getattr(self, "_scope", None)
                if sc is None:
                    sc = self._scope = Scope(P, self.owner, self.inl.cls)
                t = sc.type_of(n.value)
                k = t if isinstance(t, Cls) and not t.is_external else None
            except Exception:
                k = None
        if k is None:
            return n
        pf = P.resolve(k, n.attr)
        if pf is None or not getattr(pf, "is_property", False) or pf.is_abstract or pf.self_name is None \
                or getattr(pf.cls, "is_external", False) or _overridden_below(P, pf.cls, n.attr):
            return n
        body = _body_wo_doc(pf.node)
        if len(body) != 1 or not isinstance(body[0], ast.Return) or body[0].value is None:
            return n
        ex = body[0].value
        if any(isinstance(x, ast.Name) and x.id != pf.self_name and isinstance(x.ctx, ast.Load) and not x.id[:1].isupper()
               and x.id not in ("len", "isinstance", "bool", "int", "str", "os", "math") for x in ast.walk(ex)) \
                or any(isinstance(x, (ast.Lambda, ast.Yield, ast.YieldFrom, ast.Await, ast.NamedExpr)) for x in ast.walk(ex)):
            return n
        self.inl.inlined.append(pf.name)
        return ast.copy_location(_Subst({pf.self_name: n.value}, {}).visit(_dc(ex)), n)

    def visit_Call(self, n: ast.Call):
        self.generic_visit(n)
        h = _helper_for(self.inl.P, self.inl.cls, self.owner, n)
        if h is None or h.qual in self.stack or self.depth > MAX_DEPTH:
            return n
        body = _body_wo_doc(h.node)
        if len(body) != 1 or not isinstance(body[0], ast.Return) or body[0].value is None:
            # guard-return predicates:  if c1: return E1;  if c2: return E2;  return En     ==     E1 if c1 else (E2 if c2 else En)
            ex = _guard_returns_as_expr(body)
            if ex is None:
                return n
            body = [ast.copy_location(ast.Return(value=ex), body[0])]
        b = _bind(h, n, self.inl._tag(h))
        if b is None:
            return n
        prefix, mapping, rename = b
        if prefix:
            # an argument that is a pure expression (arithmetic over names / fields / constants) and is used once by the helper can
            # be substituted in place; anything with effects cannot be bound inside an expression
            ret = body[0].value
            extra = {}
            for st in prefix:
                v = st.value
                fresh = st.targets[0].id
                param = next((p_ for p_, f_ in rename.items() if f_ == fresh), None)
                pure = not any(isinstance(x, (ast.Call, ast.Yield, ast.YieldFrom, ast.Await, ast.NamedExpr, ast.Lambda)) for x in ast.walk(v))
                uses = sum(1 for x in ast.walk(ret) if isinstance(x, ast.Name) and x.id == param)
                if param is None or not pure or uses > 1:
                    return n
                extra[param] = v
            mapping = dict(mapping)
            mapping.update(extra)
            rename = {k: v for k, v in rename.items() if k not in extra}
        self.inl.inlined.append(h.name)
        return ast.copy_location(_Subst(mapping, rename).visit(_dc(body[0].value)), n)


_CACHE: Dict[tuple, Func] = {}


def inline_view(prog: Program, cls: Optional[Cls], f: Func) -> Func:
    """``f`` with the private helpers of ``cls`` inlined (``f`` itself when there is nothing to inline)"""
    cache = prog.__dict__.setdefault("_inline_cache", {})      # per Program: variants of the tree are separate programs
    key = (cls.qual if cls is not None else None, f.qual)
    if key in cache:
        return cache[key]
    inl = _Inliner(prog, cls, f)
    node = _dc(f.node)
    body = _body_wo_doc(node)
    # tail delegation: the whole body is `return self._h(<params>)`
    new_body = inl.block(body, f, {f.qual}, 0)
    if len(new_body) == 1 and isinstance(new_body[0], ast.Return) and isinstance(new_body[0].value, ast.Call):
        call = new_body[0].value
        h = _helper_for(prog, cls, f, call)
        if h is not None:
            b = _bind(h, call, inl._tag(h))
            if b is not None:
                prefix, mapping, rename = b
                sub = _Subst(mapping, rename)
                hb = [sub.visit(_dc(st)) for st in _body_wo_doc(h.node)]
                new_body = prefix + inl.block(hb, h, {f.qual, h.qual}, 1)
                inl.inlined.append(h.name)
    if not inl.inlined:
        cache[key] = f
        return f
    doc = node.body[:len(node.body) - len(body)]
    # constants bound to parameters of the inlined helpers (`ordered=True`) leave `if True:` / `a if True else b` behind: folded
    from .normalise import _FoldConst
    folded = []
    for st_ in new_body:
        r_ = _FoldConst().visit(st_)
        if r_ is None:
            continue
        folded += r_ if isinstance(r_, list) else [r_]
    new_body = folded
    node.body = doc + (new_body or [ast.copy_location(ast.Pass(), node)])
    ast.fix_missing_locations(node)
    # what inlining leaves behind (`result = <test>; if not result: return`, an argument bound to a local that is used once) is
    # ordinary code again: the statement-level normalisations are applied to it as they were to the source
    from .normalise import _N
    try:
        again = _N().visit(node)
        if isinstance(again, (ast.FunctionDef, ast.AsyncFunctionDef)):
            node = again
            ast.fix_missing_locations(node)
    except RecursionError:
        pass
    set_parents(node)
    node._parent = getattr(f.node, "_parent", None)  # type: ignore[attr-defined]
    g = copy.copy(f)
    g.node = node
    g.inlined_helpers = sorted(set(inl.inlined))  # type: ignore[attr-defined]
    cache[key] = g
    return g
