"""Rule instances, verdict protocol, evidence, known findings, replay files (DESIGN.md section 3)."""
from __future__ import annotations

import json
import os
import pathlib
import time
from typing import Any, Dict, List, Optional

VERIF = pathlib.Path(__file__).resolve().parent.parent
EVIDENCE_DIR = VERIF / "evidence"
KNOWN_FILE = VERIF / "KNOWN_FINDINGS.txt"

OK, VIOLATION, UNRECOGNISED = "OK", "VIOLATION", "UNRECOGNISED"


class Instance:
    def __init__(self, rule: str, file: str, construct: str, role: str, verdict: str, detail: str = "",
                 witness: Any = None, scenario: str = "", line: int = 0, nontrivial: bool = True):
        self.rule, self.file, self.construct, self.role = rule, file, construct, role
        self.verdict, self.detail, self.witness, self.scenario = verdict, detail, witness, scenario
        self.line, self.nontrivial = line, nontrivial

    @property
    def key(self) -> str:
        return f"{self.rule}|{self.file}|{self.construct}|{self.role}"

    def as_dict(self) -> Dict[str, Any]:
        d = {"rule": self.rule, "file": self.file, "construct": self.construct, "role": self.role,
             "verdict": self.verdict, "line": self.line, "detail": self.detail}
        if self.witness is not None:
            d["witness"] = self.witness
        if self.scenario:
            d["scenario"] = self.scenario
        return d


class Report:
    def __init__(self, prop: str, tier: str = "quick"):
        self.prop, self.tier = prop, tier
        self.instances: List[Instance] = []
        self.floors: Dict[str, int] = {}
        self.counters: Dict[str, int] = {}
        self.rules_text: Dict[str, str] = {}
        self.analysed_functions: set = set()
        self.notes: List[str] = []
        self.errors: List[str] = []
        self.selfcheck: Dict[str, Any] = {}

    # ---- recording
    def rule(self, rule: str, text: str, floor: int = 1):
        self.rules_text[rule] = text
        self.floors[rule] = floor

    def add(self, rule, where, role, verdict, detail="", witness=None, scenario="", nontrivial=True) -> Instance:
        """``where`` is a Func/Cls (has relpath/short/node) or a (file, construct, line) tuple"""
        if isinstance(where, tuple):
            file, construct, line = where
        else:
            file, construct, line = where.relpath, where.short, getattr(where.node, "lineno", 0)
        inst = Instance(rule, file, construct, role, verdict, detail, witness, scenario, line, nontrivial)
        self.instances.append(inst)
        return inst

    def ok(self, rule, where, role, detail="", witness=None, nontrivial=True):
        return self.add(rule, where, role, OK, detail, witness, nontrivial=nontrivial)

    def viol(self, rule, where, role, detail, witness=None, scenario="", line=None):
        inst = self.add(rule, where, role, VIOLATION, detail, witness, scenario)
        if line:
            inst.line = line
        return inst

    def unrec(self, rule, where, role, detail, line=None):
        inst = self.add(rule, where, role, UNRECOGNISED, detail)
        if line:
            inst.line = line
        return inst

    def check(self, rule, where, role, cond: bool, ok_detail="", bad_detail="", scenario="", witness=None, line=None):
        if cond:
            return self.ok(rule, where, role, ok_detail, witness)
        return self.viol(rule, where, role, bad_detail or ok_detail, witness, scenario, line)

    def count(self, name: str, n: int = 1):
        self.counters[name] = self.counters.get(name, 0) + n

    def fn(self, *funcs):
        for f in funcs:
            if f is not None:
                self.analysed_functions.add(f.qual if hasattr(f, "qual") else str(f))

    def error(self, msg: str):
        self.errors.append(msg)

    def attempt(self, thunk):
        """run one rule group; an analysis error in it (a lost anchor) is recorded and the other groups still run, so that a
        positively recognised violation elsewhere is not masked by the lost anchor"""
        from .model import AnalysisError
        try:
            return thunk()
        except AnalysisError as e:
            if str(e) not in self.errors:
                self.error(str(e))
            return None
        except Exception as e:  # a traceback must never look like a violation, nor hide one found by another rule group
            import os, traceback
            tb = traceback.format_exc().strip().splitlines()
            self.error(f"internal error: {type(e).__name__}: {e} @ {tb[-3].strip() if len(tb) >= 3 else ''}")
            if os.environ.get("VERIF_DEBUG"):
                traceback.print_exc()
            return None


def load_known() -> Dict[str, Dict[str, str]]:
    """property -> {instance key -> what fails}; only ``known:`` lines suppress"""
    out: Dict[str, Dict[str, str]] = {}
    if not KNOWN_FILE.exists():
        return out
    for line in KNOWN_FILE.read_text().splitlines():
        line = line.strip()
        if not line.startswith("known:"):
            continue
        rest = line[len("known:"):].strip()
        parts = rest.split(None, 2)
        if len(parts) < 2 or not parts[0].startswith("property=") or not parts[1].startswith("key="):
            continue
        prop = parts[0].split("=", 1)[1]
        key = parts[1].split("=", 1)[1]
        out.setdefault(prop, {})[key] = parts[2] if len(parts) > 2 else ""
    return out


def finish(rep: Report, prog, t0: float, seed: int = 0, write: bool = True, quiet: bool = False) -> int:
    """print the verdicts, write evidence and replay files, return the exit code"""
    prop = rep.prop
    known = load_known().get(prop, {})
    out = []
    per_rule: Dict[str, List[Instance]] = {}
    for i in rep.instances:
        per_rule.setdefault(i.rule, []).append(i)
    # floors: a rule that matches fewer sites than confirmed by hand must not pass vacuously
    for rule, floor in rep.floors.items():
        n = len(per_rule.get(rule, []))
        if n < floor and all(i.verdict == OK for i in per_rule.get(rule, [])):
            rep.error(f"rule {rule} matched {n} instance(s), floor is {floor} (anchor vanished or shape unrecognised)")
    viols = [i for i in rep.instances if i.verdict == VIOLATION]
    unrec = [i for i in rep.instances if i.verdict == UNRECOGNISED]
    new_viols = [i for i in viols if i.key not in known]
    known_hits = [i for i in viols if i.key in known]
    units = len(prog.units) if prog is not None else 0
    out.append(f"[{prop}] tier={rep.tier} units_parsed={units} functions_analysed={len(rep.analysed_functions)} "
               f"rules={len(rep.rules_text)} instances={len(rep.instances)} "
               + " ".join(f"{k}={v}" for k, v in sorted(rep.counters.items())))
    for rule in sorted(rep.rules_text):
        insts = per_rule.get(rule, [])
        n_ok = sum(1 for i in insts if i.verdict == OK)
        out.append(f"  {rule}: {rep.rules_text[rule]}  [{n_ok}/{len(insts)} OK, floor {rep.floors.get(rule, 0)}]")
        for i in insts:
            if i.verdict != OK or os.environ.get("VERIF_VERBOSE"):
                out.append(f"    {i.verdict:12s} {i.file}:{i.line} {i.construct} [{i.role}] {i.detail}")
    replay_dir = EVIDENCE_DIR / "replay"
    code = 0
    lines_tail = []
    if write:
        replay_dir.mkdir(parents=True, exist_ok=True)
        for old in replay_dir.glob(f"{prop}-*.json"):
            old.unlink()
    for i in known_hits:
        lines_tail.append(f"KNOWN-FINDING: property={prop} {known[i.key] or i.detail} (key={i.key})")
    for n, i in enumerate(new_viols, 1):
        path = replay_dir / f"{prop}-{n}.json"
        if write:
            path.write_text(json.dumps({"property": prop, "key": i.key, **i.as_dict()}, indent=1))
        lines_tail.append(f"  {i.file}:{i.line}: {i.construct}: rule {i.rule} [{i.role}]: {i.detail}"
                          + (f"\n    counter-scenario: {i.scenario}" if i.scenario else ""))
        lines_tail.append(f"VIOLATION property={prop} replay={path}")
        code = 1
    if unrec or rep.errors:
        for i in unrec:
            lines_tail.append(f"ANALYSIS-ERROR property={prop} unrecognised shape: {i.file}:{i.line} {i.construct} "
                              f"rule {i.rule} [{i.role}]: {i.detail}")
        for e in rep.errors:
            lines_tail.append(f"ANALYSIS-ERROR property={prop} {e}")
        if code == 0:
            code = 2
    wall = time.time() - t0
    if write:
        write_evidence(rep, prog, wall, seed, len(new_viols), known_hits)
    if not quiet:
        print("\n".join(out + lines_tail))
        print(f"[{prop}] {'PASS' if code == 0 else 'VIOLATION' if code == 1 else 'ANALYSIS-ERROR'} "
              f"({len(rep.instances)} obligations, {sum(1 for i in rep.instances if i.verdict == OK)} discharged, "
              f"{wall:.2f}s)")
    return code


def write_evidence(rep: Report, prog, wall: float, seed: int, n_viol: int, known_hits):
    EVIDENCE_DIR.mkdir(parents=True, exist_ok=True)
    insts = rep.instances
    distinct = {i.key for i in insts if i.nontrivial}
    samples = [i.as_dict() for i in insts[:12]]
    for i in insts:
        if i.verdict != OK and i.as_dict() not in samples:
            samples.append(i.as_dict())
    explanation = ("Static analysis of /repo's working tree (ast only; no repository code is imported or run). "
                   "Rules applied: " + " | ".join(f"{r}: {t}" for r, t in sorted(rep.rules_text.items())))
    cov = {
        "explanation": explanation,
        "obligations": len(insts),
        "discharged": sum(1 for i in insts if i.verdict == OK),
        "evaluations": len(insts),
        "distinct_nontrivial": len(distinct),
        "rule": "one obligation per rule instance (rule id, file, construct, role); an instance is non-trivial when "
                "its verdict needed a path/flow/ordering analysis rather than a presence test; distinct by key",
        "samples": samples,
        "units_parsed": len(prog.units) if prog is not None else 0,
        "tree_digest": getattr(prog, "digest", ""),
        "functions_analysed": sorted(rep.analysed_functions),
        "rule_instances": {r: sum(1 for i in insts if i.rule == r) for r in sorted(rep.rules_text)},
        "floors": rep.floors,
        "known_findings_hit": [i.key for i in known_hits],
        "unrecognised": [i.key for i in insts if i.verdict == UNRECOGNISED],
        "analysis_errors": rep.errors,
        "exhaustive": False,
    }
    cov.update(rep.counters)
    if rep.selfcheck:
        cov["selfcheck"] = rep.selfcheck
    ev = {
        "property_id": rep.prop,
        "tier": rep.tier if rep.tier in ("quick", "thorough") else "quick",
        "seed": seed,
        "level": "other",
        "coverage": cov,
        "assumptions": [
            "CPython's ast module parses the working tree faithfully",
            "closed world: windpyutils/ plus the parsed _collections_abc mixins; users extend only the documented "
            "extension points; no monkey-patching; generic.Wrapper is not wrapped around the analysed objects",
            "leaf classification table of external APIs (DESIGN.md appendix B) is correct",
            "standard-library semantics relied on by delegation arguments (list, dict, bisect, sorted, csv, json, "
            "multiprocessing queues/locks/events)",
            "assert statements whose test only reads (no call that could change state) hold: they are dropped before the analysis "
            "(normalisation N21); logging / warnings calls do not touch program state (N7)",
            "a field whose name is assigned nowhere in the package outside constructors keeps its value: a local that names it "
            "reads as the field (N20)",
        ] + rep.notes,
        "wall_s": round(wall, 3),
        "violations": n_viol,
    }
    (EVIDENCE_DIR / f"{rep.prop}.json").write_text(json.dumps(ev, indent=1, default=str))
